"""Determinism self-test: one seed = one exactly repeatable execution.

E1: for a few hundred (stream, run) cases the event log, the decision trace
    and the verdict must be byte-identical (a) when run twice in one process,
    (b) after an unrelated allocation/run history in the same process, (c) in
    forked children at worker counts 1, 4 and 16, (d) in a fresh interpreter
    under another PYTHONHASHSEED and with ASLR on.
E2: the same interpreter configuration gives the same fingerprint (including
    object addresses) twice; the same session plan gives the same records and
    the same check results twice.
"""
from __future__ import annotations

import hashlib
import json
import os
import random
import subprocess
import sys
import time

from simkit import driver, e1, simmpi


def _case_digest(prop, seed, stream, run):
    from checks import c08, c10
    from simkit import distrun, mrecipe
    if prop == "C08":
        case, rng = e1.make_case(seed, prop, stream, run, codegen_every=0)
        res, trace = e1.run_with(case, None, rng)
        v = c08.evaluate(case, res)
    else:
        rng = e1.case_rng(seed, prop, stream, run)
        recipe = mrecipe.gen_recipe(rng)
        faults = mrecipe.enumerate_faults(recipe)
        f = [rng.choice(faults)] if faults else []
        cfg = simmpi.draw_config(rng, recipe["nranks"])
        case = {"recipe": recipe, "cfg": cfg, "iterations": 1,
                "real_codegen": False, "faults": f, "stop_after": "verify"}
        res, trace = e1.run_with(case, None, rng)
        v = c10.evaluate(case, res)
        case.pop("_model", None)
    h = hashlib.sha256()
    h.update(json.dumps(case, sort_keys=True).encode())
    h.update(repr(res["sim"].log).encode())
    h.update(json.dumps(trace).encode())
    h.update(json.dumps(sorted(x["class"] for x in v)).encode())
    h.update(repr([st[0] for st in res["status"]]).encode())
    return h.hexdigest()[:20]


def _cases(n):
    return [(p, s, r) for p in ("C08", "C10") for s in range(4)
            for r in range(n // 8)]


def e1_digests(seed, n, warm=0):
    rng = random.Random(99)
    for _ in range(warm):
        _case_digest("C08", seed + 1000, rng.randrange(50), rng.randrange(50))
    return {f"{p}:{s}:{r}": _case_digest(p, seed, s, r)
            for (p, s, r) in _cases(n)}


def _stream_task(task):
    seed, cases = task
    return {f"{p}:{s}:{r}": _case_digest(p, seed, s, r) for (p, s, r) in cases}


def main(args):
    seed = driver.get_seed()
    n = 400 if args.tier == "thorough" else 160
    t0 = time.monotonic()
    bad = []
    ref = e1_digests(seed, n)
    again = e1_digests(seed, n)
    if ref != again:
        bad.append("E1: second run in the same process differs")
    warm = e1_digests(seed, n, warm=60)
    if ref != warm:
        bad.append("E1: run after an unrelated history differs")
    cases = _cases(n)
    for nproc in (1, 4, 16):
        chunks = [cases[i::nproc] for i in range(nproc)]
        merged = {}
        for _i, _t, status, r in driver.forkpool(
                [(seed, c) for c in chunks], _stream_task, nproc=nproc,
                timeout=600):
            if status != "ok":
                bad.append(f"E1: worker failed at nproc={nproc}: {status}")
            else:
                merged.update(r)
        if merged != ref:
            diff = [k for k in ref if merged.get(k) != ref[k]]
            bad.append(f"E1: nproc={nproc} differs in {len(diff)} cases, e.g. "
                       f"{diff[:3]}")
    # fresh interpreter, another hash seed, ASLR on
    for hs in ("7", "123456"):
        env = dict(os.environ)
        env["PYTHONHASHSEED"] = hs
        env["VERIF_CHILD"] = "1"
        code = ("import sys, json; sys.path.insert(0, %r); "
                "from checks import determinism; "
                "print(json.dumps(determinism.e1_digests(%d, %d)))"
                % (driver.VERIF_DIR, seed, n))
        r = subprocess.run([driver.PYTHON, "-c", code], capture_output=True,
                           text=True, env=env, timeout=1200)
        try:
            other = json.loads(r.stdout.strip().splitlines()[-1])
        except Exception:  # noqa: BLE001
            bad.append(f"E1: fresh interpreter failed: {r.stderr[-400:]}")
            continue
        if other != ref:
            diff = [k for k in ref if other.get(k) != ref[k]]
            bad.append(f"E1: fresh interpreter with PYTHONHASHSEED={hs} differs "
                       f"in {len(diff)} cases, e.g. {diff[:3]}")
    print(f"[determinism] E1: {len(ref)} cases x (2 in-process + after-history "
          f"+ nproc 1/4/16 + 2 fresh interpreters): "
          f"{'identical' if not bad else 'DIFFERENCES'} "
          f"({time.monotonic() - t0:.0f}s)", flush=True)

    # E2
    from checks import c17, histmain, c04
    from simkit import fleet, histories
    t1 = time.monotonic()
    cfg = {"hashseed": 12345, "prelude": 4242}
    fps = []
    for _ in range(2):
        w = fleet.Worker.from_config(cfg, "det")
        fps.append(json.dumps(w.call("fingerprint"), sort_keys=True))
        w.close()
    if fps[0] != fps[1]:
        bad.append("E2: same configuration, different fingerprint "
                   "(addresses not reproducible: setarch -R unavailable?)")
    # ... and the same addresses after the same command history (code
    # generation included): address-dependent findings must replay
    from simkit import mrecipe, srecipe
    hist = []
    for _ in range(2):
        w = fleet.Worker.from_config(cfg, "det")
        probes = []
        for k in range(24):
            if k % 2:
                w.call("c17_single", with_c=False, recipe=srecipe.gen_recipe(
                    random.Random(f"det{k}"), "codegen"))
            else:
                w.call("c17_multi", sim_seed=k, with_codegen=(k % 4 == 0),
                       recipe=mrecipe.gen_recipe(random.Random(f"det{k}")))
            if k % 6 == 5:
                probes.append(w.call("addr_probe"))
        w.close()
        hist.append(probes)
    if hist[0] != hist[1]:
        bad.append("E2: same configuration and command history, different "
                   "object addresses afterwards")
    # process actors: the same interpreter configurations and the same seed
    # give the same kernel event log
    from simkit import procexec
    digs = []
    for _ in range(2):
        pcfgs = fleet.draw_configs(random.Random(5), 4, optimize_all=False)
        ws = [fleet.Worker.from_config(c, f"d{i}")
              for i, c in enumerate(pcfgs)]
        d = []
        for k in range(25):
            r = random.Random(f"detp{k}")
            rec = mrecipe.gen_recipe(r)
            pres = procexec.run_case(ws, rec, simmpi.draw_config(r, rec["nranks"]),
                                     simmpi.Chooser(r), iterations=r.choice([1, 2]))
            d.append((pres["log_digest"], pres["outcome"]))
        for w in ws:
            w.close()
        digs.append(d)
    if digs[0] != digs[1]:
        bad.append("E1/process actors: same configurations and seed, different "
                   "event logs")
    conf = {"sessions": 1, "workers": 2, "single": 6, "multi": 20}
    recs = []
    for _ in range(2):
        r = c17.run_session((seed, 0, conf))
        recs.append((r["records"], r["compared"], sorted(r["fps"]),
                     len(r["violations"])))
    if recs[0] != recs[1]:
        bad.append("E2: the same C17 session gave different results twice")
    hconf = {"sessions": 1, "workers": [2], "histories": 12}
    outs = []
    for _ in range(2):
        r = histmain.run_session(("C04", seed, 0, hconf))
        outs.append((r["histories"], json.dumps(r["stats"], sort_keys=True),
                     sorted(r["fps"]), len(r["violations"])))
    if outs[0] != outs[1]:
        bad.append("E2: the same C04 history session gave different results "
                   "twice")
    print(f"[determinism] E2: fingerprint x2, C17 session x2, C04 session x2: "
          f"{'identical' if not any(b.startswith('E2') for b in bad) else 'DIFFERENCES'} "
          f"({time.monotonic() - t1:.0f}s)", flush=True)
    for b in bad:
        print("[determinism] FAIL:", b)
    return 1 if bad else 0
