"""Shadow execution of the REAL loopy kernel of a part through loopy's C target
and gcc (there is no OpenCL device here).  Used only as evidence that the stub
back end (RefEval) and the generated kernels agree; never decides a verdict."""
from __future__ import annotations

import numpy as np


def to_c_executable(t_unit):
    import loopy as lp
    knl = t_unit.default_entrypoint
    tvs = {}
    for name, tv in knl.temporary_variables.items():
        if tv.address_space == lp.AddressSpace.GLOBAL:
            # the C executor has no allocator for global temporaries
            tv = tv.copy(address_space=lp.AddressSpace.PRIVATE)
        tvs[name] = tv
    knl = knl.copy(temporary_variables=tvs, target=lp.ExecutableCTarget())
    return t_unit.with_kernel(knl).copy(target=lp.ExecutableCTarget())


def run_bound_program(bp, inputs):
    """-> dict name -> ndarray, or raises"""
    t_unit = to_c_executable(bp.program)
    args = {}
    for k, v in bp.bound_arguments.items():
        args[k] = np.array(v, order="C") if isinstance(v, np.ndarray) else v
    for k, v in inputs.items():
        args[k] = np.array(v, order="C")
    knl = t_unit.default_entrypoint
    wanted = {a.name for a in knl.args if not getattr(a, "is_output", False)}
    args = {k: v for k, v in args.items() if k in wanted}
    import contextlib
    import io
    # (loopy print()s the whole translation unit when its own pre-schedule
    # check fails, before raising)
    with contextlib.redirect_stdout(io.StringIO()):
        _evt, out = t_unit.executor()(**args)
    if not isinstance(out, dict):
        outs = [a.name for a in knl.args if getattr(a, "is_output", False)]
        out = dict(zip(outs, out))
    return {k: np.array(v) for k, v in out.items()}
