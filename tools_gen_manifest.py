"""Regenerates MANIFEST.json from the table below (kept as code so that the
file stays consistent); run: /venv/bin/python tools_gen_manifest.py"""
import json

NA = {
 "C01": "pure function program x input -> value (generate_loopy output vs NumPy); no schedule, clock, fault, process or history for a simulator to control; dressing random program generation as a 'workload' would be differential testing, another technique family. (Process-dependence of generated code is C17, claimed.)",
 "C02": "pure function of one node's parameters (lowering to IndexLambda preserves meaning); the property itself asks for exhaustive enumeration in a bounded scope = bounded model checking / exhaustive testing, no nondeterminism to simulate.",
 "C03": "pure differential statement (constructor shape/dtype inference vs NumPy); no schedule, fault or history.",
 "C05": "each clause compares f(g) with g for one deterministic call (value, idempotence, input not mutated); pipelines of transformations are compositions of pure functions, not schedules.",
 "C06": "pure algebraic identity over expressions and policy callbacks (einsum distributive-law rewrite).",
 "C07": "tagged vs untagged program on equal inputs: a pure comparison with no interleaving, fault or history dimension.",
 "C11": "universally quantified over all loop-index and size-parameter valuations; the property says 'decided symbolically, not sampled'; an out-of-bounds read does not show in values. An ISL/SMT check is another family.",
 "C12": "pure: trace / inline a function call and evaluate.",
 "C13": "statement about one traversal of one graph by one mapper (visit counts, sharing); a mapper cache is state but no ordering of operations, fault or concurrency enters.",
 "C14": "pure: generated Python/JAX source evaluated vs NumPy. (Process-independence of the generated text is part of C17, claimed.)",
 "C15": "pure function of the user's names (names in, names out of generated code).",
 "C16": "universally quantified integer arithmetic over symbolic size parameters (SMT / exhaustive grid); pure.",
 "C19": "pure pattern-matching soundness of IndexLambda raising.",
 "C20": "pure functions of the graph (analyses vs a reflective walk); no schedule, fault or history.",
}

PENDING = {}

CHECKS = {
 "C04": dict(
   engine="E2-fleet",
   category="exploration",
   text="Seeded histories (5-25 operations) over 2-4 real child interpreters with distinct PYTHONHASHSEED / heap / allocation history (ASLR off): build, independent rebuild, reflective single-field mutation (fields, wrapped data, numpy scalar constants, operations inside scalar expressions, callee kernels of loopy units), per-graph field sweeps (one mutant per (node kind, field) signature present), mapping reorder, API round trip and API derivation from objects that already carry caches, hash forcing, loopy code generation and nine other read-only consumers of the same objects (drawing, analyses, mappers, the Python target), pickle, unpickle in the same / another / a crashed-and-restarted interpreter, deepcopy, junk allocation, and CHURN (build, compare, key and discard transient graphs with new wrapped data every round, so that addresses are reused while earlier state is still around). A fifth of the interpreters run python -O. After the steps of every history each interpreter checks, over all pairs of its live objects: == agrees with the reflective structure walker; == implies equal hash and set/dict membership; symmetry, reflexivity, != consistency, sampled transitivity; no _hash_value on freshly unpickled/copied nodes; hashing adds no picklable state; the orchestrator checks that the canonical form survives every cross-process round trip. Sampling: evidence for the sampled histories, node kinds and (node kind, field) pairs it lists, not a proof.",
   design_ref="DESIGN.md sections 3, 4, 5 (C04)",
   note="Trusted: the reflective walker's canonical form as the definition of 'same structure' (dataclass fields except non_equality_tags; DataWrapper by identity); setarch -R + PYTHONHASHSEED + heap prelude give distinct, reproducible interpreters; the single-field half (orig vs mutant) has no history dimension and is reported under its own counters.",
   technique="deterministic simulation of an interpreter population: seeded operation histories with crash/restart and pickle transfer, congruence oracle after each history, minimised replay files"),
 "C08": dict(
   engine="E1-SimMPI",
   category="exploration",
   text="Seeded search over (multi-rank program, message/part schedule, legal MPI perturbation) triples: every run executes the real find_distributed_partition / verify / number_distributed_tags / execute_distributed_partition on 1-4 simulated ranks under a scheduler that owns every interleaving (delivery order and delay, Waitsome subsets and order, eager vs rendezvous sends with late buffer reads, poisoned receive buffers, stalled ranks, PCT priorities, back-to-back re-execution). Invariants during the run (no exception, deadlock, livelock, poison read, size mismatch) and over the history (outputs equal the recipe-level NumPy evaluation of the global data flow exactly; exactly-once message accounting; bounded liveness). About 2500 runs per quick run use PROCESS ACTORS (one child interpreter per rank with its own hash seed/heap, a proxy thread per rank inside the same kernel), because ranks exchange pickles. The transport carries memory images and rejects non-contiguous buffers as mpi4py does; user inputs are sometimes Fortran-ordered or come with unused extras; programs include calls to hand-written loopy kernels and sparse CSR products whose component arrays arrive from other ranks; every third process-actor group runs python -O. Plus a bounded exhaustive stratum: for small programs (<=3 ranks, <=3 messages) ALL schedules (delivery / send-completion / wake-up orders, every Waitsome subset, eager and rendezvous) are enumerated depth-first. Sampling, not proof, beyond that stratum: a clean batch is evidence for the sampled space (ranks<=4, comm ops<=6).",
   design_ref="DESIGN.md sections 2, 4, 5 (C08), 10",
   note="Trusted: the SimMPI kernel implements MPI matching/completion semantics for the subset pytato uses (Isend/Irecv/Waitsome/Wait, pickle-based collectives); the recipe-level NumPy oracle and RefEval (cross-checked against each other on 1 run in 8); numerical execution of a part is RefEval on the part's expressions, not the compiled kernel (generate_loopy is run for its exceptions on sampled runs, with a communication-free control compile to tell partition-induced failures from code generation's own; on a small sample the real kernels are also executed through loopy's C target + gcc next to the stub, as evidence only).",
   technique="deterministic simulation: seeded schedule + perturbation search on a simulated MPI (plus exhaustive schedule enumeration for small instances), reference-model oracle, minimised replay files"),
 "C09": dict(
   engine="E1-SimMPI",
   category="exploration",
   text="Same simulated ranks and workload as C08, stopped after number_distributed_tags; the DistributedGraphPart contract (exactly-one producer, reads only what is available, no communication nodes in parts, sent names are outputs, received names are not), acyclicity of the global part graph, existence of one global order of communication rounds consistent with every rank's part chain, verify_distributed_partition accepting, and tag numbering agreement are evaluated by a reflective walker on what every rank returned, under seeded rank stalls and seeded fold order/bracketing of the commutative allreduce. Two actor kinds: rank threads in one interpreter (bulk), and PROCESS ACTORS - every rank in its own child interpreter with its own PYTHONHASHSEED, heap prelude and allocation history (ASLR off), the orchestrator serving the collectives over pipes, reading from one chosen actor at a time and having a seeded rank fold the allreduce in a seeded order (about 2000 multi-rank programs per quick run).",
   design_ref="DESIGN.md section 5 (C09)",
   note="Trusted: SimMPI collective semantics (mpi4py pickle-based methods); the reflective walker; invariant 5 is deliberately weaker than the implementation's exact batch numbers. Process actors cover collectives only (the run stops after number_distributed_tags), which is all C09 needs.",
   technique="deterministic simulation: seeded collective schedules and reduction orders on a simulated MPI, invariants over all ranks' returned partitions"),
 "C10": dict(
   engine="E1-SimMPI",
   category="fault_enumeration",
   text="For every sampled valid multi-rank program: the fault-free run, EVERY single communication fault (drop / duplicate / retag / redirect / self on the send and on the receive side, a matched self-loop, a dependency closing a cross-rank cycle) at EVERY live communication operation, and seeded fault pairs. All ranks run find_distributed_partition + verify_distributed_partition on SimMPI under a seeded schedule; per rank the outcome is returned / raised / blocked-forever. A share of the runs uses PROCESS ACTORS (every rank in its own child interpreter with its own hash seed and heap; about 2000 runs per quick run), because the ranks exchange pickles whose meaning must not depend on the interpreter that made them. The expectation comes from an independent communication model of the built graphs, so cancelling faults must succeed and a correct program must never be rejected. PARTITION-LEVEL faults in addition: the partition find_distributed_partition returned for a valid program is tampered with on one rank (a receive posted in another part, an extra ordering edge), then all ranks run verify -> number -> execute; a partition whose global part graph the reference model finds cyclic must not pass verify_distributed_partition on every rank and then fail to execute, and a partition with a duplicated send must not pass on every rank. Every third process-actor group runs python -O and is held to the safety half only (no partition for an ill-formed program, no valid program rejected, no hang).",
   design_ref="DESIGN.md sections 4.2, 4.3, 5 (C10)",
   note="Trusted: the communication model as definition of well-formed; the diagnostic family; the rule 'at least one affected rank raises a diagnostic, nobody raises anything else, not everybody returns; a cycle is raised on every rank'. Programs are sampled; faults per program are enumerated.",
   technique="deterministic simulation with fault injection: enumerated program-level communication faults executed on a simulated MPI, per-rank protocol outcome vs an independent model"),
 "C17": dict(
   engine="E2-fleet",
   category="exploration",
   text="The 'system' is the interpreter population: sessions of 3-4 real child interpreters (ASLR off, distinct PYTHONHASHSEED - half edge values (0, 1, 2**31-1, 2**32-1), half drawn afresh per session -, every third session under python -O, seeded heap prelude before imports, seeded junk-graph allocation history, per-interpreter batch order) each produce, twice at different points of their life, text records for a batch of single-rank programs (loopy kernel key + canonical dump, OpenCL and C source, bound-argument order, generated Python source) and multi-rank programs (per simulated rank: part structure, names, receive/send order, canonical forms of part expressions, overall output order, integers from number_distributed_tags, keys of the part kernels; SimMPI seed equal across interpreters), plus a 'world' comparison in which every rank of a program lives in its own interpreter, plus alternation records (the text of a fixed symbolic-shape program regenerated 250 times while same-shaped rival graphs are built and discarded, so that addresses are recycled; every text must be the first). Oracle: byte equality across all interpreters and both productions.",
   design_ref="DESIGN.md sections 3, 5 (C17)",
   note="Trusted: the canonical printer (sets sorted, ordered results in order); loopy's code generation is inside the compared pipeline; distinct fingerprints and differing plain-set iteration orders are measured to show that the fleet members do differ.",
   technique="deterministic simulation of an interpreter population: seeded hash seeds / heaps / allocation histories, byte-for-byte comparison of emitted records, replay by re-launching the two interpreters"),
 "C18": dict(
   engine="E2-fleet",
   category="exploration",
   text="Same histories as C04 with the PytatoKeyBuilder key observed per object: keys of graphs with the same canonical form must agree across interpreters with different hash seeds, across independent rebuilds, before/after pickling (including blobs unpickled in a crashed-and-restarted interpreter), whether or not hash() was forced first, when recomputed by a fresh key builder, and - for transient graphs of churn rounds - with a peer interpreter that builds the graph from scratch (key <-> content stays a bijection over all rounds); keys of graphs whose canonical forms differ (all pairs of live objects, including orig-vs-single-field-mutant pairs and wrapped data differing in one element / in dtype with identical bytes / in shape with identical bytes / in byte order / in memory layout, numpy scalars of another dtype with identical bytes, another operation in a scalar expression, another callee kernel in a loopy unit) must differ. Wrapped data range from 0 to 1 MiB (bulk recipes).",
   design_ref="DESIGN.md section 5 (C18)",
   note="Trusted: the reflective walker in content mode as definition of 'structurally equal'; scalar-type leniency (2.0 vs numpy.float64(2.0)) in the must-differ direction only. The injectivity half over generated pairs has no history dimension and is reported under its own counters.",
   technique="deterministic simulation of an interpreter population: seeded histories with pickle transfer and restarts, key agreement/injectivity oracle, minimised replay files"),
}

def cmd(pid, tier):
    return f"./check {pid} --tier {tier}"

manifest = {
 "version": 1,
 "setup_cmd": "/venv/bin/python -c \"import pytato, loopy, numpy, pymbolic; print('ok')\" && chmod +x /verif/check",
 "hooks": {
   "guard": "PYTATO_VERIF",
   "enable": "no hooks exist: every seam the simulators need (the mpi_communicator argument, 'from mpi4py import MPI' inside the functions with mpi4py absent from the sandbox, the prg_per_partition argument, pyopencl.array.to_device as a module attribute, the child interpreter's environment) is reachable from outside; checks import pytato from /repo's working tree as is",
   "baseline_off_cmd": "cd /repo && /venv/bin/python -m pytest -ra -q -p no:cacheprovider --timeout=900 --continue-on-collection-errors",
   "source_commits": [],
   "add_only": True,
 },
 "engines": [
   {"name": "E1-SimMPI", "path": "simkit/simmpi.py", "serves_properties": ["C08", "C09", "C10", "C17"],
    "kind_free_text": "deterministic message-passing simulator presenting the mpi4py subset pytato uses; baton-passing rank threads running unmodified pytato code; one seeded chooser decides every interleaving and perturbation; replayable decision lists"},
   {"name": "E2-fleet", "path": "simkit/fleet.py", "serves_properties": ["C04", "C17", "C18", "C09"],
    "kind_free_text": "interpreter-population simulator: child interpreters under setarch -R with seeded PYTHONHASHSEED, heap prelude and allocation history; only bytes (recipes, pickles) cross; crash/restart of interpreters with only pickled state surviving"},
 ],
 "checks": [],
 "not_applicable": [],
 "notes": "Technique family: deterministic simulation with fault injection. See DESIGN.md. Exit codes: 0 property held on everything explored (KNOWN-FINDING lines possible), 1 VIOLATION (replay confirmed in a fresh process), 2 harness error (no VIOLATION line).",
}
for pid in sorted(CHECKS):
    c = CHECKS[pid]
    manifest["checks"].append({
      "property_id": pid,
      "quick_cmd": cmd(pid, "quick"),
      "thorough_cmd": cmd(pid, "thorough"),
      "evidence_file": f"/verif/evidence/{pid}.json",
      "replay_cmd_template": f"./check {pid} --replay {{path}}",
      "engine": c["engine"],
      "level_claimed": {"category": c["category"], "text": c["text"], "design_ref": c["design_ref"]},
      "level_note": c["note"],
      "technique": c["technique"],
    })
for pid in sorted(NA):
    manifest["not_applicable"].append({"property_id": pid, "reason": "not applicable to deterministic simulation: " + NA[pid]})
for pid in sorted(PENDING):
    manifest["not_applicable"].append({"property_id": pid, "reason": PENDING[pid]})
json.dump(manifest, open("MANIFEST.json", "w"), indent=1)
print("checks:", [c["property_id"] for c in manifest["checks"]], "n/a:", len(manifest["not_applicable"]))
