"""Engine E1 glue shared by the C08 / C09 / C10 checks: case generation from
one integer, stream runner, minimiser, replay."""
from __future__ import annotations

import collections
import copy
import hashlib
import json
import random
import time

from . import distrun, mrecipe, simmpi

REAL_STUB_TABLE = {
    "real": [
        "pytato.transform.deduplicate", "materialize_with_mpms",
        "find_distributed_partition (incl. eliminate_dead_code, "
        "_LocalSendRecvDepGatherer, _schedule_task_batches, "
        "_DistributedInputReplacer, collect_materialized_nodes, "
        "SubsetDependencyMapper, DirectPredecessorsGetter)",
        "verify_distributed_partition", "number_distributed_tags",
        "execute_distributed_partition",
        "generate_code_for_partition -> generate_loopy (sampled runs; "
        "exceptions count, with a communication-free control compile; the "
        "program registered for a part must have that part's outputs/inputs)",
        "shadow execution of the real generated kernel of a part (retargeted "
        "to loopy's C target, compiled with gcc) next to the stub on a small "
        "sample of runs: agreement is counted as evidence "
        "(extra.shadow_real_kernel:*), never decides a verdict",
    ],
    "stub": [
        "mpi4py (the simulator SimMPI: Comm, Request, Op)",
        "numerical execution of one part (RefEval on the part's own "
        "expressions instead of the compiled loopy kernel)",
        "pyopencl.array.to_device (returns a host copy)",
    ],
}


def case_rng(seed, prop, stream, run):
    return random.Random(f"{seed}:{prop}:{stream}:{run}")


def make_case(seed, prop, stream, run, *, codegen_every=4, max_ranks=4,
              max_comm=6):
    rng = case_rng(seed, prop, stream, run)
    recipe = mrecipe.gen_recipe(rng, max_ranks=max_ranks, max_comm=max_comm)
    cfg = simmpi.draw_config(rng, recipe["nranks"])
    iterations = rng.choice([1, 1, 2])
    real_codegen = codegen_every > 0 and (run % codegen_every == 0)
    return {"recipe": recipe, "cfg": cfg, "iterations": iterations,
            "real_codegen": real_codegen}, rng


def recipe_digest(recipe):
    return hashlib.sha256(json.dumps(recipe, sort_keys=True).encode()
                          ).hexdigest()[:12]


def topology_signature(recipe):
    _live, livec = mrecipe.live_sets(recipe)
    return (recipe["nranks"],
            tuple(sorted((recipe["comms"][ci]["src"], recipe["comms"][ci]["dst"])
                         for ci in livec)))


class Accum:
    """per-stream accumulator, merged in the parent"""

    def __init__(self):
        self.runs = 0
        self.events = 0
        self.stats = collections.Counter()
        self.probes = collections.Counter()
        self.policies = collections.Counter()
        self.pairs: set = set()             # distinct (recipe, schedule) hashes
        self.nontrivial_pairs: set = set()
        self.schedules: set = set()
        self.topologies: set = set()
        self.partshapes: set = set()
        self.small = collections.Counter()  # schedule signature counts, small stratum
        self.violations: list = []
        self.known: list = []
        self.samples: list = []
        self.harness_errors: list = []
        self.extra = collections.Counter()
        self.wall = 0.0

    def merge(self, o):
        self.runs += o.runs
        self.events += o.events
        self.stats.update(o.stats)
        self.probes.update(o.probes)
        self.policies.update(o.policies)
        self.pairs |= o.pairs
        self.nontrivial_pairs |= o.nontrivial_pairs
        self.schedules |= o.schedules
        self.topologies |= o.topologies
        self.partshapes |= o.partshapes
        self.small.update(o.small)
        self.violations += o.violations
        self.known += o.known
        if len(self.samples) < 3:
            self.samples += o.samples[:3 - len(self.samples)]
        self.harness_errors += o.harness_errors
        self.extra.update(o.extra)
        self.wall += o.wall

    def note_run(self, case, res):
        recipe = case["recipe"]
        sim = res["sim"]
        self.runs += 1
        self.events += sim.stats["events"]
        self.stats.update(sim.stats)
        self.policies[case["cfg"]["policy"]] += 1
        pr = mrecipe.probes(recipe)
        for k in sorted(pr):
            if pr[k] is True:
                self.probes[k] += 1
        nparts = [x for x in res["nparts"] if x is not None]
        if any(x == 1 for x in nparts) and recipe["nranks"] > 1:
            self.probes["single_part_rank"] += 1
        if any(x >= 3 for x in nparts):
            self.probes["three_or_more_parts"] += 1
        if case["iterations"] > 1:
            self.probes["back_to_back_execution"] += 1
        if case.get("real_codegen"):
            self.probes["real_generate_loopy"] += 1
        if res["monitor"]["codegen_own_failures"]:
            self.extra["codegen_failed_also_without_partitioning"] += 1
        for k, n in res["monitor"]["shadow"].items():
            self.extra[f"shadow_real_kernel:{k}"] += n
        rd = recipe_digest(recipe)
        pair = hashlib.sha256((rd + res["log_digest"]).encode()).digest()[:8]
        self.pairs.add(pair)
        self.schedules.add(res["log_digest"])
        self.topologies.add(topology_signature(recipe))
        self.partshapes.add(distrun.partition_shape_signature(res))
        if recipe["nranks"] >= 2 and pr["ncomm_live"] >= 1:
            self.nontrivial_pairs.add(pair)
        if recipe["nranks"] <= 2 and pr["ncomm_live"] <= 2:
            self.small[res["log_digest"]] += 1

    def sample(self, case, res, decisions):
        if len(self.samples) >= 2:
            return
        recipe = case["recipe"]
        self.samples.append({
            "recipe": recipe, "sim_config": case["cfg"],
            "iterations": case["iterations"],
            "outcome": res["outcome"],
            "parts_per_rank": res["nparts"],
            "schedule_head": decisions[:40],
            "events": res["sim"].stats["events"],
        })


def classes_of(violations):
    return sorted({v["class"] for v in violations})


def run_with(case, decisions=None, rng=None, **kw):
    """execute a case, either from a recorded decision list or a PRNG"""
    ch = simmpi.Chooser(rng if rng is not None else random.Random(0),
                        replay=decisions)
    if "stop_after" in case and "stop_after" not in kw:
        kw["stop_after"] = case["stop_after"]
    res = distrun.run_case(case["recipe"], case["cfg"], ch,
                           iterations=case.get("iterations", 1),
                           real_codegen=case.get("real_codegen", False),
                           shadow_exec=case.get("shadow_exec", False),
                           faults=case.get("faults", ()),
                           transport_fault=case.get("transport_fault"),
                           tamper=case.get("tamper"),
                           **kw)
    return res, ch.trace


# {{{ minimisation

def minimise(case, decisions, target_class, evaluate, budget_s=120.0,
             tries_per_candidate=6):
    """Greedy delta debugging.  *evaluate(case, res)* -> list of violations.
    A candidate is kept if some schedule (the recorded one replayed loosely,
    the default one, or a few fresh seeded ones) still shows *target_class*.
    Returns (case, decisions)."""
    t0 = time.monotonic()

    def fails(cand, dec_hint):
        attempts = [("replay", dec_hint), ("default", [])]
        attempts += [("seeded", i) for i in range(tries_per_candidate)]
        for kind, arg in attempts:
            c2 = cand
            try:
                if kind == "seeded":
                    res, trace = run_with(c2, None,
                                          random.Random(f"minimise:{arg}"))
                elif kind == "default":
                    c2 = dict(cand, cfg=dict(simmpi.DEFAULT_CONFIG))
                    res, trace = run_with(c2, [])
                else:
                    res, trace = run_with(c2, arg)
                v = evaluate(c2, res)
            except distrun.HarnessDisagreement:
                continue
            except Exception:  # noqa: BLE001
                continue
            if target_class in classes_of(v):
                return c2, trace
        return None

    best = (case, decisions)
    progress = True
    while progress and time.monotonic() - t0 < budget_s:
        progress = False
        cur_case, cur_dec = best
        # fewer iterations / no real codegen first: cheap wins
        simple = []
        if cur_case.get("iterations", 1) > 1:
            simple.append(dict(cur_case, iterations=1))
        if cur_case.get("real_codegen"):
            simple.append(dict(cur_case, real_codegen=False))
        for cand in simple:
            got = fails(cand, cur_dec)
            if got is not None:
                best = got
                progress = True
                break
        if progress:
            continue
        for rc in mrecipe.shrink_candidates(cur_case["recipe"]):
            if time.monotonic() - t0 > budget_s:
                break
            if mrecipe.recipe_size(rc) >= mrecipe.recipe_size(cur_case["recipe"]):
                continue
            cand = dict(cur_case, recipe=rc)
            if cur_case.get("faults"):
                continue        # fault positions refer to comm indices
            got = fails(cand, cur_dec)
            if got is not None:
                best = got
                progress = True
                break
    # schedule: default config with no decisions, then shorter prefixes
    cur_case, cur_dec = best
    cand = dict(cur_case, cfg=dict(simmpi.DEFAULT_CONFIG))
    try:
        res, trace = run_with(cand, [])
        if target_class in classes_of(evaluate(cand, res)):
            return cand, trace
    except Exception:  # noqa: BLE001
        pass
    n = len(cur_dec)
    while n > 0 and time.monotonic() - t0 < budget_s * 1.5:
        n //= 2
        try:
            res, trace = run_with(cur_case, cur_dec[:n])
            if target_class in classes_of(evaluate(cur_case, res)):
                cur_dec = cur_dec[:n]
                best = (cur_case, cur_dec)
            else:
                break
        except Exception:  # noqa: BLE001
            break
    # re-record the exact trace for the final case
    res, trace = run_with(best[0], best[1])
    return best[0], trace

# }}}


def replay_doc(prop, seed, stream, run, case, decisions, classes, details,
               target_class):
    return {
        "property": prop, "seed": seed, "stream": stream, "run": run,
        "recipe": case["recipe"], "sim_config": case["cfg"],
        "iterations": case.get("iterations", 1),
        "real_codegen": case.get("real_codegen", False),
        "faults": list(case.get("faults", ())),
        "transport_fault": case.get("transport_fault"),
        "tamper": case.get("tamper"),
        "schedule": decisions, "stop_after": case.get("stop_after", "execute"),
        "mode": case.get("mode", "threads"), "configs": case.get("configs"),
        "verdict_classes": classes, "target_class": target_class,
        "details": details[:8],
    }


def case_from_doc(doc):
    return {"recipe": doc["recipe"], "cfg": doc["sim_config"],
            "mode": doc.get("mode", "threads"), "configs": doc.get("configs"),
            "iterations": doc.get("iterations", 1),
            "real_codegen": doc.get("real_codegen", False),
            "faults": doc.get("faults", []),
            "stop_after": doc.get("stop_after", "execute"),
            "tamper": doc.get("tamper"),
            "transport_fault": doc.get("transport_fault")}


def good_turing(counter):
    n = sum(counter.values())
    if not n:
        return None
    n1 = sum(1 for v in counter.values() if v == 1)
    return {"runs": n, "distinct": len(counter), "seen_once": n1,
            "estimated_unseen_mass": round(n1 / n, 4)}

# vim: foldmethod=marker
