"""C09 -- every distributed partition is well-formed and all ranks agree on it.
Engine E1 (SimMPI); the run stops after number_distributed_tags.  The
invariants are evaluated by the reflective walker (simkit/partcheck.py), not by
verify_distributed_partition, which is code under test (its verdict is
invariant 6)."""
from __future__ import annotations

import time

from checks.known import match_known
from simkit import distrun, driver, e1

PROP = "C09"
LEVEL = "exploration"

TIERS = {
    "quick": {"streams": 64, "runs": 600, "codegen_every": 0, "budget_s": None,
              "proc_groups": 3, "proc_runs": 700},
    "thorough": {"streams": 4000, "runs": 500, "codegen_every": 0,
                 "budget_s": 15 * 60, "proc_groups": 120, "proc_runs": 1500},
}

RULE = ("one evaluation = one simulated multi-rank run of "
        "find_distributed_partition + verify_distributed_partition + "
        "number_distributed_tags under a seeded schedule (rank stalls, PCT "
        "priorities, seeded fold order and bracketing of the commutative "
        "allreduce); distinct = distinct (recipe digest, event-log digest) "
        "pairs; non-trivial = at least 2 ranks and at least 1 live message")

ASSUMPTIONS = [
    "SimMPI implements the collective semantics of mpi4py's pickle-based "
    "lower-case methods (every rank gets an independent unpickled copy; an "
    "allreduce with a commute=True op may be folded in any order/bracketing, "
    "all ranks receive the same result object)",
    "the reflective walker (dataclasses.fields) sees every field of a "
    "DistributedGraphPart / DistributedGraphPartition that matters",
    "invariant 5 (agreement on rounds) is checked as existence of one global "
    "integer labelling of messages consistent with every rank's part chain "
    "(weaker than the implementation's exact batch numbers on purpose)",
]

EXPECTED_PROBES = ("forwarded_recv", "recv_only_via_holder", "output_is_input",
                   "output_is_recv", "dup_output_array", "multi_msg_same_pair",
                   "same_array_two_peers", "stored_on_recv", "shared_sym_tag",
                   "three_or_more_parts", "reduce_shuffled", "stalls")


def evaluate(case, res):
    return distrun.oracle_c09(case["recipe"], res)


# {{{ process actors: one interpreter per rank (hash seeds differ between ranks)

def make_tasks(seed, conf):
    tasks = [(seed, k, conf["runs"], 0) for k in range(conf["streams"])]
    # interleave the process-actor groups so that they start early
    for g in range(conf.get("proc_groups", 0)):
        tasks.insert(min(len(tasks), 4 * g), (seed, ("proc", g),
                                              conf["proc_runs"], 0))
    return tasks


def _proc_run_one(ws, recipe, rng):
    from simkit import procranks
    state, results, stats = procranks.run(ws, recipe, rng)
    return procranks.evaluate(recipe, state, results), state, stats


def run_proc_group(task):
    import random
    from simkit import fleet, mrecipe
    seed, (_kind, group), nprogs, _ = task
    acc = e1.Accum()
    t0 = time.monotonic()
    rng = random.Random(f"{seed}:{PROP}:proc:{group}")
    cfgs = fleet.draw_configs(rng, 4, optimize_all=(group % 3 == 1))
    ws = [fleet.Worker.from_config(c, f"p{group}.{i}")
          for i, c in enumerate(cfgs)]
    acc.extra["process_actor_interpreters"] += len(ws)
    if cfgs[0].get("optimize"):
        acc.extra["process_actor_groups_running_python_-O"] += 1
    try:
        for i in range(nprogs):
            recipe = mrecipe.gen_recipe(
                random.Random(f"{seed}:{PROP}:proc:{group}:{i}"))
            if recipe["nranks"] < 2:
                continue
            v, state, stats = _proc_run_one(
                ws, recipe, random.Random(f"{seed}:{PROP}:proc:{group}:{i}:s"))
            acc.runs += 1
            acc.extra["process_actor_runs"] += 1
            acc.extra["process_actor_collectives"] += stats["collectives"]
            acc.extra["process_actor_fold_orders_shuffled"] += \
                stats["fold_orders_shuffled"]
            import hashlib
            pair = hashlib.sha256(("proc" + e1.recipe_digest(recipe)).encode()
                                  ).digest()[:8]
            acc.pairs.add(pair)
            _live, livec = mrecipe.live_sets(recipe)
            if livec:
                acc.nontrivial_pairs.add(pair)
            if v:
                acc.violations.append({
                    "stream": f"proc{group}", "run": i,
                    "case": {"recipe": recipe, "cfg": {}, "iterations": 1,
                             "mode": "process", "configs": cfgs},
                    "decisions": [], "classes": e1.classes_of(v),
                    "details": v[:8]})
                if len(acc.violations) >= 2:
                    break
    finally:
        for w in ws:
            w.close()
    acc.wall = time.monotonic() - t0
    return acc


def minimise_process(v, target, budget_s=120.0):
    """shrink the recipe with the same four interpreter configurations"""
    import random
    from simkit import fleet, mrecipe
    case = v["case"]
    cfgs = case["configs"]
    ws = [fleet.Worker.from_config(c, f"min{i}")
          for i, c in enumerate(cfgs)]
    t0 = time.monotonic()
    recipe = case["recipe"]

    def fails(rc):
        try:
            vv, _s, _st = _proc_run_one(ws, rc, random.Random("min"))
        except Exception:  # noqa: BLE001
            return False
        return target in e1.classes_of(vv)
    try:
        progress = fails(recipe)
        while progress and time.monotonic() - t0 < budget_s:
            progress = False
            for rc in mrecipe.shrink_candidates(recipe):
                if mrecipe.recipe_size(rc) < mrecipe.recipe_size(recipe) \
                        and rc["nranks"] >= 2 and fails(rc):
                    recipe = rc
                    progress = True
                    break
    finally:
        for w in ws:
            w.close()
    return dict(case, recipe=recipe), []


def replay_process(doc):
    import random
    from simkit import fleet
    cfgs = doc["configs"]
    ws = [fleet.Worker.from_config(c, f"rp{i}")
          for i, c in enumerate(cfgs)]
    try:
        v, _s, _st = _proc_run_one(ws, doc["recipe"], random.Random("min"))
    finally:
        for w in ws:
            w.close()
    return v

# }}}


def run_stream(task):
    seed, stream, nruns, _codegen_every = task
    if isinstance(stream, tuple):
        return run_proc_group(task)
    known = driver.load_known_findings(PROP)
    acc = e1.Accum()
    t0 = time.monotonic()
    for run in range(nruns):
        case, rng = e1.make_case(seed, PROP, stream, run, codegen_every=0)
        case["iterations"] = 1
        case["stop_after"] = "tags"
        res, trace = e1.run_with(case, None, rng)
        acc.note_run(case, res)
        acc.sample(case, res, trace)
        v = evaluate(case, res)
        if v:
            rest, hits = match_known(case, v, known)
            for h in hits:
                acc.known.append((h, stream, run))
            if rest:
                acc.violations.append({
                    "stream": stream, "run": run, "case": case,
                    "decisions": trace, "classes": e1.classes_of(rest),
                    "details": rest[:8]})
                if len(acc.violations) >= 3:
                    break
    acc.wall = time.monotonic() - t0
    return acc


def replay(path):
    import json
    with open(path) as f:
        doc = json.load(f)
    if doc.get("mode") == "process":
        v = replay_process(doc)
        return doc, e1.classes_of(v), v
    case = e1.case_from_doc(doc)
    case["stop_after"] = "tags"
    res, _trace = e1.run_with(case, doc["schedule"])
    v = evaluate(case, res)
    rest, _hits = match_known(case, v, driver.load_known_findings(PROP))
    return doc, e1.classes_of(rest), rest
