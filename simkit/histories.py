"""Seeded histories over the interpreter fleet (engine E2) for C04 and C18:
build / rebuild / mutate / hash / pickle / unpickle here, elsewhere or in a
restarted interpreter / deepcopy / key / crash, with congruence invariants
checked in every worker after (almost) every step and cross-process
invariants checked by the orchestrator."""
from __future__ import annotations

import random

from . import fleet, srecipe

MAX_HANDLES = 10
# (the same tuple as fleet_ops.READ_ONLY_USES; kept here so that planning a
# history does not import pytato)
READ_ONLY_USES = ("dot", "num_nodes", "inputs", "dedup", "copy_mapper",
                  "python_target", "dependencies", "repr", "materialize")


# {{{ plan generation (pure: no worker involved)

def gen_history(rng: random.Random, nworkers: int, configs, hist_id: str):
    """a concrete operation list.  Handles are per worker ("w0:h3")."""
    ops = []
    handles = [[] for _ in range(nworkers)]   # live handle names per worker
    blobs: list = []                           # blob names (durable state)
    counter = [0]
    cfgs = [dict(c) for c in configs]

    def new_h(w):
        counter[0] += 1
        h = f"{hist_id}.h{counter[0]}"
        handles[w].append(h)
        return h

    recipes = []
    for i in range(rng.randint(1, 2)):
        recipes.append(srecipe.gen_recipe(
            random.Random(f"{hist_id}:recipe{i}:{rng.random()}"), "any",
            nsteps=rng.randint(1, 10)))

    def build(w):
        ri = rng.randrange(len(recipes))
        ops.append({"op": "build", "w": w, "hid": new_h(w), "recipe": ri,
                    "rid": f"{hist_id}.r{ri}"})

    build(rng.randrange(nworkers))
    n = rng.randint(5, 24)
    for _ in range(n):
        w = rng.randrange(nworkers)
        hs = handles[w]
        k = rng.random()
        if not hs or k < 0.10:
            build(w)
        elif k < 0.16:
            ops.append({"op": "build_fresh", "w": w, "hid": new_h(w),
                        "recipe": rng.randrange(len(recipes))})
        elif k < 0.32:
            ops.append({"op": "mutate", "w": w, "src": rng.choice(hs),
                        "hid": new_h(w), "mseed": rng.randrange(10 ** 9)})
        elif k < 0.34:
            h_new = new_h(w)
            handles[w].append(h_new + "t")
            ops.append({"op": "api_derive", "w": w, "src": rng.choice(hs),
                        "hid": h_new, "seed": rng.randrange(10 ** 6)})
        elif k < 0.39:
            ops.append({"op": "reorder", "w": w, "src": rng.choice(hs),
                        "hid": new_h(w)})
        elif k < 0.42:
            ops.append({"op": "api_roundtrip", "w": w, "src": rng.choice(hs),
                        "hid": new_h(w)})
        elif k < 0.44:
            ops.append({"op": "relayout", "w": w, "src": rng.choice(hs),
                        "hid": new_h(w), "seed": rng.randrange(10 ** 6)})
        elif k < 0.47:
            h_new = new_h(w)
            handles[w].append(h_new + "t")      # its twin (see fleet_ops)
            ops.append({"op": "api_derive", "w": w, "src": rng.choice(hs),
                        "hid": h_new, "seed": rng.randrange(10 ** 6)})
        elif k < 0.49:
            ops.append({"op": "sub", "w": w, "src": rng.choice(hs),
                        "hid": new_h(w), "index": rng.randrange(1000)})
        elif k < 0.55:
            ops.append({"op": "hash", "w": w, "hid": rng.choice(hs),
                        "deep": rng.random() < 0.5})
        elif k < 0.575:
            ops.append({"op": "use", "w": w, "hid": rng.choice(hs),
                        "which": rng.choice(READ_ONLY_USES)})
        elif k < 0.59:
            ops.append({"op": "loopy_codegen", "w": w, "hid": rng.choice(hs)})
        elif k < 0.64:
            ops.append({"op": "key", "w": w, "hid": rng.choice(hs)})
        elif k < 0.76:
            b = f"{hist_id}.b{len(blobs)}"
            blobs.append(b)
            ops.append({"op": "pickle", "w": w, "hid": rng.choice(hs),
                        "blob": b})
        elif k < 0.88 and blobs:
            # unpickle here, elsewhere, or (next op) in a restarted interpreter
            w2 = rng.randrange(nworkers)
            if rng.random() < 0.25:
                cfgs[w2] = {"hashseed": rng.randrange(2 ** 32),
                            "prelude": rng.randrange(1, 10 ** 6)}
                if rng.random() < 0.2:
                    cfgs[w2]["optimize"] = True
                ops.append({"op": "crash", "w": w2, "config": dict(cfgs[w2])})
                handles[w2] = []
            ops.append({"op": "unpickle", "w": w2, "blob": rng.choice(blobs),
                        "hid": new_h(w2)})
        elif k < 0.92:
            ops.append({"op": "deepcopy", "w": w, "src": rng.choice(hs),
                        "hid": new_h(w)})
        elif k < 0.94:
            ops.append({"op": "junk", "w": w, "seed": rng.randrange(10 ** 6),
                        "n": rng.randint(1, 8), "keep": rng.choice([0.0, 0.5])})
        elif k < 0.965:
            ops.append({"op": "field_sweep", "w": w, "hid": rng.choice(hs),
                        "seed": rng.randrange(10 ** 6)})
        elif k < 0.98:
            ops.append({"op": "churn", "w": w, "seed": rng.randrange(10 ** 6),
                        "recipe": rng.randrange(len(recipes)),
                        "n": rng.randint(4, 16)})
        else:
            ops.append({"op": "check", "w": w, "seed": rng.randrange(10 ** 6)})
        for wi in range(nworkers):
            while len(handles[wi]) > MAX_HANDLES:
                h = handles[wi].pop(rng.randrange(len(handles[wi])))
                ops.append({"op": "drop", "w": wi, "hid": h})
    for wi in range(nworkers):
        ops.append({"op": "check", "w": wi, "seed": rng.randrange(10 ** 6)})
        for h in handles[wi]:
            ops.append({"op": "drop", "w": wi, "hid": h})
    return {"id": hist_id, "recipes": recipes, "ops": ops}

# }}}


# {{{ interpreter

class Fleet:
    def __init__(self, configs):
        self.configs = [dict(c) for c in configs]
        self.workers = [fleet.Worker.from_config(c, str(i))
                        for i, c in enumerate(self.configs)]
        self.restarts = 0
        self.fps = [w.call("fingerprint") for w in self.workers]

    def restart(self, w, config):
        self.workers[w].kill()
        self.configs[w] = dict(config)
        self.workers[w] = fleet.Worker.from_config(config, str(w))
        self.restarts += 1
        self.fps.append(self.workers[w].call("fingerprint"))

    def close(self):
        for w in self.workers:
            w.close()


def run_history(fl: Fleet, hist, with_keys=True, stats=None, key_table=None):
    """execute one history; returns list of violations
    ({"class", "op_index", "detail"}).  Ops whose inputs do not exist (after
    minimisation dropped their producers) are skipped."""
    viol = []
    live = [set() for _ in fl.workers]
    blobs: dict = {}           # name -> (bytes, source canon, source key|None)
    info: dict = {}            # handle -> info dict from the worker
    tainted: set = set()       # reflective mutants and what derives from them
    blob_tainted: dict = {}
    if stats is None:
        stats = {}
    if key_table is None:
        key_table = {}

    def bump(k, n=1):
        stats[k] = stats.get(k, 0) + n

    def note_key(w, h, key, idx):
        cc = info.get(h, {}).get("canon_content")
        if cc is None or key is None:
            return
        prev = key_table.get(cc)
        if prev is None:
            key_table[cc] = (key, fl.configs[w]["hashseed"])
        elif prev[0] != key:
            viol.append({"class": "key-differs-for-same-structure-across-"
                                  "processes-or-history",
                         "op_index": idx,
                         "detail": f"{h}: {key} here (hash seed "
                                   f"{fl.configs[w]['hashseed']}), {prev[0]} "
                                   f"first seen under hash seed {prev[1]}"})
        bump("key_observations")

    for idx, op in enumerate(hist["ops"]):
        w = op["w"]
        wk = fl.workers[w]
        kind = op["op"]
        try:
            if kind == "build":
                info[op["hid"]] = wk.call(
                    "build", hid=op["hid"], recipe=hist["recipes"][op["recipe"]],
                    rid=op["rid"])
                live[w].add(op["hid"])
            elif kind == "build_fresh":
                info[op["hid"]] = wk.call(
                    "build_fresh", hid=op["hid"],
                    recipe=hist["recipes"][op["recipe"]])
                live[w].add(op["hid"])
            elif kind in ("mutate", "reorder", "api_roundtrip", "sub", "deepcopy",
                          "relayout", "api_derive"):
                if op["src"] not in live[w]:
                    continue
                kwargs = {"hid_new": op["hid"], "hid": op["src"]}
                if kind == "mutate":
                    kwargs["mseed"] = op["mseed"]
                if kind == "sub":
                    kwargs["index"] = op["index"]
                if kind in ("relayout", "api_derive"):
                    kwargs["seed"] = op["seed"]
                r = wk.call(kind, **kwargs)
                if kind == "mutate":
                    if r.get("sig") is None:
                        bump("mutations_ineffective")
                        continue
                    bump("mutations")
                    bump("mut:" + r["sig"])
                if kind == "api_derive":
                    if not r.get("derived"):
                        continue
                    bump("api_derived_after_possible_caching")
                    if r.get("twin"):
                        live[w].add(op["hid"] + "t")
                        info[op["hid"] + "t"] = dict(r)
                        if op["src"] in tainted:
                            tainted.add(op["hid"] + "t")
                if kind == "deepcopy" and r.get("leaks"):
                    viol.append({"class": "cached-hash-survived-deepcopy",
                                 "op_index": idx, "detail": str(r["leaks"][:5])})
                info[op["hid"]] = r
                live[w].add(op["hid"])
                if kind == "mutate" or op["src"] in tainted:
                    tainted.add(op["hid"])
            elif kind == "hash":
                if op["hid"] not in live[w]:
                    continue
                before = wk.call("state_size", hid=op["hid"])
                wk.call("hash", hid=op["hid"], deep=op["deep"])
                after = wk.call("state_size", hid=op["hid"])
                bump("hash_forced")
                if before != after:
                    viol.append({"class": "hashing-added-picklable-state",
                                 "op_index": idx,
                                 "detail": f"{before} -> {after} bytes"})
            elif kind == "use":
                if op["hid"] not in live[w]:
                    continue
                r = wk.call("use", hid=op["hid"], which=op["which"])
                bump(f"use_{op['which']}_{r.split(':')[0]}")
            elif kind == "loopy_codegen":
                if op["hid"] not in live[w]:
                    continue
                r = wk.call("loopy_codegen", hid=op["hid"])
                bump("loopy_codegen_" + r.split(":")[0])
            elif kind == "key":
                if op["hid"] not in live[w] or not with_keys:
                    continue
                before = wk.call("state_size", hid=op["hid"])
                k1 = wk.call("key", hid=op["hid"])
                after = wk.call("state_size", hid=op["hid"])
                k2 = wk.call("fresh_key", hid=op["hid"])
                bump("keys")
                if k1 != k2:
                    viol.append({"class": "key-changes-when-recomputed",
                                 "op_index": idx, "detail": f"{k1} then {k2}"})
                if before != after:
                    # informational only: the key builder caches a digest on
                    # objects without a custom __getstate__ (tags, reduction
                    # operations, LoopyCall); the digest is process-independent
                    # and the property does not forbid pickling it
                    bump("keying_added_picklable_state_informational")
                note_key(w, op["hid"], k1, idx)
            elif kind == "pickle":
                if op["hid"] not in live[w]:
                    continue
                blob = wk.call("pickle", hid=op["hid"])
                key = wk.call("key", hid=op["hid"]) if with_keys else None
                blobs[op["blob"]] = (blob, info[op["hid"]]["canon_content"], key,
                                     fl.configs[w]["hashseed"])
                blob_tainted[op["blob"]] = op["hid"] in tainted
                bump("pickles")
            elif kind == "crash":
                fl.restart(w, op["config"])
                live[w] = set()
                bump("crash_restarts")
            elif kind == "unpickle":
                if op["blob"] not in blobs:
                    continue
                blob, src_canon, src_key, src_seed = blobs[op["blob"]]
                r = wk.call("unpickle", hid_new=op["hid"], blob=blob,
                            tainted=bool(blob_tainted.get(op["blob"])))
                info[op["hid"]] = r
                live[w].add(op["hid"])
                if blob_tainted.get(op["blob"]):
                    tainted.add(op["hid"])
                bump("unpickles")
                if fl.configs[w]["hashseed"] != src_seed:
                    bump("unpickles_under_another_hash_seed")
                if r["leaks"]:
                    viol.append({"class": "cached-hash-survived-pickling",
                                 "op_index": idx, "detail": str(r["leaks"][:5])})
                if r["canon_content"] != src_canon:
                    viol.append({"class": "structure-changed-by-pickle-round-trip",
                                 "op_index": idx,
                                 "detail": f"{src_canon} -> {r['canon_content']}"})
                if with_keys:
                    k = wk.call("key", hid=op["hid"])
                    if src_key is not None and k != src_key:
                        viol.append({"class": "key-changed-by-pickle-round-trip",
                                     "op_index": idx,
                                     "detail": f"{src_key} (hash seed {src_seed})"
                                               f" -> {k} (hash seed "
                                               f"{fl.configs[w]['hashseed']})"})
                    note_key(w, op["hid"], k, idx)
            elif kind == "churn":
                r = wk.call("churn", recipe=hist["recipes"][op["recipe"]],
                            seed=op["seed"], n=op["n"], with_keys=with_keys)
                for k, n in r["counters"].items():
                    bump(k, n)
                for v in r["violations"]:
                    viol.append({"class": v["class"], "op_index": idx,
                                 "detail": v["detail"]})
                smp = r.get("sample")
                if smp is not None and len(fl.workers) > 1:
                    # the last transient graph of the run, keyed by a peer
                    # that builds it from scratch
                    w2 = (w + 1) % len(fl.workers)
                    ref = fl.workers[w2].call(
                        "recipe_key", recipe=hist["recipes"][op["recipe"]],
                        salt=smp["salt"])
                    bump("churn_keys_compared_with_peer")
                    if ref["content"] == smp["content"] and \
                            ref["key"] != smp["key"]:
                        viol.append({
                            "class": "key-differs-for-same-structure-across-"
                                     "processes-or-history",
                            "op_index": idx,
                            "detail": f"transient graph (salt {smp['salt']}): "
                                      f"{smp['key']} after churn in worker {w}, "
                                      f"{ref['key']} built from scratch in "
                                      f"worker {w2}"})
                    elif ref["content"] != smp["content"]:
                        viol.append({
                            "class": "HARNESS:recipe-builds-differently",
                            "op_index": idx, "detail": "churn sample"})
            elif kind == "field_sweep":
                if op["hid"] not in live[w] or op["hid"] in tainted:
                    continue
                r = wk.call("field_sweep", hid=op["hid"], seed=op["seed"],
                            with_keys=with_keys)
                for k, n in r["counters"].items():
                    bump(k, n)
                for sg in r["sigs"]:
                    bump("mut:" + sg)
                for v in r["violations"]:
                    viol.append({"class": v["class"], "op_index": idx,
                                 "detail": v["detail"]})
            elif kind == "junk":
                wk.call("junk", seed=op["seed"], n=op["n"], keep=op["keep"])
                bump("junk_ops")
            elif kind == "drop":
                if op["hid"] in live[w]:
                    wk.call("drop", hid=op["hid"])
                    live[w].discard(op["hid"])
            elif kind == "check":
                r = wk.call("check", seed=op["seed"], with_keys=with_keys)
                for k, n in r["counters"].items():
                    bump("check_" + k, n)
                for v in r["violations"]:
                    viol.append({"class": v["class"], "op_index": idx,
                                 "detail": f"{v['handles']} {v['detail']}"})
                if with_keys:
                    for h, key in r["keys"].items():
                        if h in info and key is not None:
                            info[h]["canon_content"] = r["canon_content"][h]
                            note_key(w, h, key, idx)
            bump("ops")
        except fleet.WorkerError as e:
            # an operation on an (ill-formed) reflective mutant or on something
            # derived from one may raise: that says nothing about pytato
            involved = [op.get("hid"), op.get("src")]
            if any(h in tainted for h in involved if h) or \
                    (kind == "unpickle" and blob_tainted.get(op.get("blob"))):
                bump("ops_failed_on_ill_formed_mutant")
            else:
                viol.append({"class": "HARNESS:worker-exception",
                             "op_index": idx,
                             "detail": f"{kind}: {str(e)[-600:]}"})
    return viol

# }}}

# vim: foldmethod=marker
