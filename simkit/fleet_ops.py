"""Operations a fleet worker can perform (engine E2)."""
from __future__ import annotations

import copy
import pickle
import random

import numpy as np

from . import c17rec, mutate, srecipe, walker


PIPE = None        # (send, recv) of the worker process; set by fleet_worker


class State:
    def __init__(self):
        self.h: dict = {}          # handle -> object
        self.meta: dict = {}       # handle -> dict
        self.junk: list = []
        self.shared: dict = {}     # recipe id -> {step id: DataWrapper}
        self.mut_counter = [0]
        self.kb = None

    def key_builder(self):
        if self.kb is None:
            from pytato.analysis import PytatoKeyBuilder
            self.kb = PytatoKeyBuilder()
        return self.kb


# {{{ generic / C17

def op_fingerprint(st):
    return c17rec.fingerprint()


def op_junk(st, seed, n, keep):
    """allocation history: build (and partly keep) other graphs first"""
    rng = random.Random(f"junk:{seed}")
    made = 0
    for _ in range(n):
        rec = srecipe.gen_recipe(rng, "any", nsteps=rng.randint(1, 8))
        _vals, out = srecipe.build(rec)
        try:
            hash(out)
        except Exception:  # noqa: BLE001
            pass
        made += 1
        if rng.random() < keep:
            st.junk.append(out)
    while len(st.junk) > 200:
        del st.junk[rng.randrange(len(st.junk))]
    return made


def op_c17_alternation(st, family, rounds):
    return c17rec.alternation_record(family, rounds)


def op_c17_single(st, recipe, with_c=False):
    return c17rec.single_record(recipe, with_c)


def op_c17_multi(st, recipe, sim_seed, with_codegen=False, fixed=False):
    return c17rec.multi_record(recipe, sim_seed, with_codegen, fixed)


def op_set_probe(st, recipe):
    return c17rec.set_order_probe(recipe)

# }}}


# {{{ C04 / C18 histories

def _leaks(obj):
    """nodes that carry a cached hash / cached key digest although the object
    has just been created from bytes or by copying"""
    out = []
    for v in walker.iter_nodes(obj):
        d = getattr(v, "__dict__", None)
        if d and "_hash_value" in d:
            out.append(type(v).__name__)
    return out


def _info(st, hid):
    obj = st.h[hid]
    return {
        "canon_content": walker.canon_key(obj, "content", scalar_types=True),
        "nnodes": sum(1 for _ in walker.pytato_nodes(obj)),
    }


def op_build(st, hid, recipe, rid):
    shared = st.shared.setdefault(rid, {})
    _vals, out = srecipe.build(recipe, shared)
    st.h[hid] = out
    st.meta[hid] = {"origin": ("build", rid)}
    return _info(st, hid)


def op_build_fresh(st, hid, recipe):
    """independent rebuild: no object shared with any other handle"""
    _vals, out = srecipe.build(recipe, None)
    st.h[hid] = out
    st.meta[hid] = {"origin": ("build-fresh",)}
    return _info(st, hid)


_COMMON_KINDS = {"IndexLambda", "Placeholder", "DataWrapper", "Axis",
                 "DictOfNamedArrays", "SizeParam", "NormalizedSlice",
                 "BasicIndex", "Reshape", "AxisPermutation"}


def op_mutate(st, hid_new, hid, mseed):
    root = st.h[hid]
    rng = random.Random(f"mut:{mseed}")
    ss = mutate.sites(root)
    bysig: dict = {}
    for node, f in ss:
        bysig.setdefault(mutate.site_signature(node, f), []).append((node, f))
    sigs = sorted(bysig)
    rng.shuffle(sigs)
    if rng.random() < 0.5:
        # half of the time the rarer node families go first (a uniform draw
        # over signatures almost always lands on IndexLambda / Placeholder)
        sigs.sort(key=lambda sg: sg.split(".")[0] in _COMMON_KINDS)
    base = walker.canon_text(root, "content")
    for sig in sigs[:6]:
        node, f = rng.choice(bysig[sig])
        try:
            m = mutate.mutate_site(root, node, f, rng, st.mut_counter)
        except mutate.Ineffective:
            continue
        if walker.canon_text(m, "content") == base:
            continue
        if not _usable(m):
            # the reflective mutation produced an object whose derived
            # properties raise (e.g. a LoopyCall naming an entrypoint that
            # does not exist): not a meaningful pair
            continue
        st.h[hid_new] = m
        st.meta[hid_new] = {"origin": ("mutate", hid, sig), "tainted": True}
        return {"sig": sig, **_info(st, hid_new)}
    return {"sig": None}


def op_field_sweep(st, hid, seed, with_keys=True, max_sigs=60):
    """ONE mutant for EVERY (node kind, field) signature present in the graph
    (a random history reaches the rare signatures -- a loopy call's translation
    unit, a callee kernel inside it -- far too seldom): original vs mutant
    must be unequal, and their keys must differ.  Everything happens in this
    interpreter; the mutants are dropped afterwards."""
    root = st.h[hid]
    rng = random.Random(f"sweep:{seed}")
    bysig: dict = {}
    for node, f in mutate.sites(root):
        bysig.setdefault(mutate.site_signature(node, f), []).append((node, f))
    sigs = sorted(bysig)
    if len(sigs) > max_sigs:
        sigs = sorted(rng.sample(sigs, max_sigs))
    base_i = walker.canon_key(root, "identity")
    base_c = walker.canon_key(root, "content")
    kb = st.key_builder()
    try:
        k0 = kb(root) if with_keys else None
    except Exception:  # noqa: BLE001
        k0 = None
    viol = []
    cnt = {"sweep_mutants": 0, "sweeps": 1}
    sig_seen = []
    for sig in sigs:
        node, f = rng.choice(bysig[sig])
        try:
            m = mutate.mutate_site(root, node, f, rng, st.mut_counter)
        except mutate.Ineffective:
            continue
        except Exception:  # noqa: BLE001
            continue
        if not _usable(m):
            continue
        try:
            mi = walker.canon_key(m, "identity")
            mc = walker.canon_key(m, "content")
        except Exception:  # noqa: BLE001
            continue
        cnt["sweep_mutants"] += 1
        sig_seen.append(sig)
        if mi != base_i:
            try:
                e1, e2 = bool(root == m), bool(m == root)
            except Exception:  # noqa: BLE001
                e1 = e2 = None
            if e1 or e2:
                viol.append({"class": "equal-despite-difference:" + sig,
                             "handles": [hid], "detail": "field sweep"})
            elif e1 is False:
                pass
        if with_keys and k0 is not None and mc != base_c:
            try:
                k1 = kb(m)
            except Exception:  # noqa: BLE001
                k1 = None
            if k1 is not None and k1 == k0:
                viol.append({"class": "key-collision:" + sig,
                             "handles": [hid], "detail": "field sweep"})
        del m
    # derive sweep: for ONE node of every taggable kind present, an object
    # derived through the public API (tagged) from the node AFTER it was hashed
    # and keyed must equal -- in ==, hash() and key -- the same derivation from
    # a pristine copy of the node (no cached hash, no cached digest)
    from pytools.tag import Taggable
    from . import htags
    by_type: dict = {}
    for v in walker.pytato_nodes(root):
        if isinstance(v, Taggable):
            by_type.setdefault(type(v).__name__, []).append(v)
    tag = htags.HTagB(61 + seed % 3)
    for tname in sorted(by_type):
        o = by_type[tname][rng.randrange(len(by_type[tname]))]
        try:
            hash(o)
            if with_keys:
                kb(o)
            new = o.tagged(tag)
            twin = pickle.loads(pickle.dumps(
                o, protocol=pickle.HIGHEST_PROTOCOL)).tagged(tag)
            same = walker.canon_key(new, "identity") \
                == walker.canon_key(twin, "identity")
            e = bool(new == twin)
            hn, ht = hash(new), hash(twin)
            kn, kt = (kb(new), st.key_builder()(twin)) if with_keys \
                else (None, None)
        except Exception:  # noqa: BLE001
            continue
        cnt["derive_sweep_objects"] = cnt.get("derive_sweep_objects", 0) + 1
        if not same:
            continue        # (identity semantics of wrapped data: not comparable)
        if not e:
            viol.append({"class": "same-structure-but-unequal:derived-" + tname,
                         "handles": [hid], "detail": "derive sweep"})
        elif hn != ht:
            viol.append({"class": "equal-but-hash-differs:derived-" + tname,
                         "handles": [hid], "detail": "derive sweep: tagged() "
                         "after hash() vs tagged() on a pristine copy"})
        if with_keys and kn != kt:
            viol.append({"class": "same-structure-but-key-differs",
                         "handles": [hid], "detail": "derive sweep: " + tname})
    return {"violations": viol[:8], "counters": cnt, "sigs": sig_seen}


def _usable(obj):
    import pytato as pt
    try:
        for v in walker.pytato_nodes(obj):
            if isinstance(v, pt.Array):
                v.shape, v.dtype, v.axes, v.tags
        hash(obj)
        obj == obj  # noqa: B015
        return True
    except Exception:  # noqa: BLE001
        return False


def _taint(st, hid_new, hid):
    if st.meta.get(hid, {}).get("tainted"):
        st.meta[hid_new]["tainted"] = True


def op_reorder(st, hid_new, hid):
    st.h[hid_new] = mutate.reorder_mappings(st.h[hid])
    st.meta[hid_new] = {"origin": ("reorder", hid)}
    _taint(st, hid_new, hid)
    return _info(st, hid_new)


def op_relayout(st, hid_new, hid, seed):
    new, n = mutate.relayout(st.h[hid], random.Random(f"relayout:{seed}"))
    st.h[hid_new] = new
    st.meta[hid_new] = {"origin": ("relayout", hid)}
    _taint(st, hid_new, hid)
    return {"changed": n, **_info(st, hid_new)}


def op_sub(st, hid_new, hid, index):
    nodes = [v for v in walker.pytato_nodes(st.h[hid])]
    v = nodes[index % len(nodes)]
    st.h[hid_new] = v
    st.meta[hid_new] = {"origin": ("sub", hid)}
    _taint(st, hid_new, hid)
    return {"type": type(v).__name__, **_info(st, hid_new)}


def op_api_roundtrip(st, hid_new, hid):
    """an equal object produced through the public API"""
    import pytato as pt
    from . import htags
    obj = st.h[hid]
    t = htags.HTagB(55)
    new = None
    try:
        if isinstance(obj, pt.Array):
            new = obj.tagged(t).without_tags(t)
            if len(type(obj).__name__) % 2 and hasattr(obj, "copy"):
                new = obj.copy()
        elif isinstance(obj, pt.DictOfNamedArrays):
            new = pt.make_dict_of_named_arrays(
                {k: obj._data[k] for k in reversed(list(obj._data))},
                tags=obj.tags)
    except Exception:  # noqa: BLE001
        new = None
    if new is None:
        new = copy.copy(obj)
    st.h[hid_new] = new
    st.meta[hid_new] = {"origin": ("api-roundtrip", hid)}
    _taint(st, hid_new, hid)
    return _info(st, hid_new)


def op_api_derive(st, hid_new, hid, seed):
    """a DIFFERENT object derived through the public API from one that may
    already carry cached state (hash, key digest): tagged / with_tagged_axis /
    without_tags on the root or on one named output"""
    import pytato as pt
    from . import htags
    rng = random.Random(f"derive:{seed}")
    obj = st.h[hid]

    def derive(a):
        k = rng.random()
        if k < 0.5 or a.ndim == 0:
            return a.tagged(htags.HTagB(rng.randint(60, 63)))
        if k < 0.8:
            return a.with_tagged_axis(rng.randrange(a.ndim),
                                      htags.HTagB(rng.randint(60, 63)))
        if a.tags:
            return a.without_tags(sorted(a.tags, key=repr)[0])
        return a.tagged(htags.HTagA())
    from pytools.tag import Taggable

    def derive_any(o, r):
        if isinstance(o, pt.DictOfNamedArrays):
            names = sorted(o._data)
            pick = r.choice(names)
            return pt.make_dict_of_named_arrays(
                {n: (derive(o._data[n]) if n == pick else o._data[n])
                 for n in names}, tags=o.tags)
        if isinstance(o, pt.Array):
            return derive(o)
        if isinstance(o, Taggable):
            # FunctionDefinition, Call, DistributedSend, Axis, ...
            return o.tagged(htags.HTagB(r.randint(60, 63)))
        return None
    # the object the derivation starts from: the root, or (half of the time)
    # some taggable node INSIDE the graph -- a FunctionDefinition, a Call, a
    # DistributedSend, an interior array -- which has usually been hashed or
    # keyed already as part of the graph; sometimes hash it right now
    if rng.random() < 0.5:
        inner = [v for v in walker.pytato_nodes(obj) if isinstance(v, Taggable)]
        rare = [v for v in inner if not isinstance(v, pt.Array)
                and not isinstance(v, pt.DictOfNamedArrays)]
        if rare and rng.random() < 0.6:
            obj = rare[rng.randrange(len(rare))]
        elif inner:
            obj = inner[rng.randrange(len(inner))]
    if rng.random() < 0.6:
        try:
            hash(obj)
        except TypeError:
            pass
    new = twin = None
    try:
        state = rng.getstate()
        new = derive_any(obj, rng)
        # the twin: the same derivation applied to a pristine copy of the
        # object (no cached hash, no cached key digest): must be equal to
        # *new* in every respect
        rng.setstate(state)
        # (protocol 5: below that, numpy itself rewrites data of non-native
        # byte order to native order while pickling, and the copy would not
        # be a copy)
        twin = derive_any(pickle.loads(pickle.dumps(
            obj, protocol=pickle.HIGHEST_PROTOCOL)), rng)
    except Exception:  # noqa: BLE001
        new = None
    if new is None:
        return {"derived": False}
    st.h[hid_new] = new
    st.meta[hid_new] = {"origin": ("api-derive", hid)}
    _taint(st, hid_new, hid)
    out = {"derived": True, "twin": False, **_info(st, hid_new)}
    if twin is not None:
        st.h[hid_new + "t"] = twin
        st.meta[hid_new + "t"] = {"origin": ("api-derive-twin", hid)}
        _taint(st, hid_new + "t", hid)
        out["twin"] = True
    return out


def op_loopy_codegen(st, hid):
    """run loopy code generation on the graph: loopy's own key builder and
    code generator touch the tag instances the graph shares with others"""
    import loopy as lp
    import pytato as pt
    from loopy.tools import LoopyKeyBuilder
    obj = st.h[hid]
    try:
        if isinstance(obj, pt.Array):
            obj = pt.make_dict_of_named_arrays({"_out": obj})
        if not isinstance(obj, pt.DictOfNamedArrays):
            return "skipped"
        o = pt.transform.deduplicate(pt.tag_all_calls_to_be_inlined(obj))
        bp = pt.generate_loopy(o)
        LoopyKeyBuilder()(bp.program)
        lp.generate_code_v2(bp.program).device_code()
        return "ok"
    except Exception as e:  # noqa: BLE001
        return "failed:" + type(e).__name__


READ_ONLY_USES = ("dot", "num_nodes", "inputs", "dedup", "copy_mapper",
                  "python_target", "dependencies", "repr", "materialize")


def op_use(st, hid, which):
    """some OTHER consumer of the graph runs on it and throws its result away:
    a drawing, an analysis pass, a mapper, a code generator.  None of them may
    leave anything behind that changes what == / hash() / the persistent key
    say afterwards (seeded change C18-c18i: the drawing code keyed the nodes
    with a content-blind key builder, and pytools caches digests on objects
    for ALL key builders)."""
    import pytato as pt
    obj = st.h[hid]
    try:
        if isinstance(obj, pt.Array):
            root = pt.make_dict_of_named_arrays({"_out": obj})
        elif isinstance(obj, pt.DictOfNamedArrays):
            root = obj
        else:
            return "skipped"
        if which == "dot":
            pt.get_dot_graph(root)
        elif which == "num_nodes":
            from pytato.analysis import get_num_nodes
            get_num_nodes(root, count_duplicates=False)
        elif which == "inputs":
            from pytato.transform import InputGatherer
            InputGatherer()(root)
        elif which == "dedup":
            pt.transform.deduplicate(root)
        elif which == "copy_mapper":
            from pytato.transform import CopyMapper
            CopyMapper()(root)
        elif which == "python_target":
            from pytato.target.python.numpy_like import generate_numpy_like
            generate_numpy_like(pt.transform.deduplicate(root))
        elif which == "dependencies":
            from pytato.transform import DependencyMapper
            DependencyMapper()(root)
        elif which == "repr":
            repr(obj)
            str(obj)
        elif which == "materialize":
            from pytato.transform.materialize import materialize_with_mpms
            materialize_with_mpms(pt.transform.deduplicate(root))
        return "ok"
    except Exception as e:  # noqa: BLE001
        return "failed:" + type(e).__name__


def op_churn(st, recipe, seed, n=25, with_keys=True):
    """time-stepper style: build, compare, key and DISCARD transient graphs
    over and over, so that object addresses are reused by new nodes while
    whatever state earlier comparisons/keyings left behind (id()-keyed caches,
    memo tables) is still around.  Every verdict is checked against the
    reflective walker."""
    rng = random.Random(f"churn:{seed}")
    viol = []
    cnt = {"churn_rounds": 0, "churn_comparisons": 0}
    kb = st.key_builder()
    # each round wraps NEW data (salt) unless the recipe has none: the arrays
    # of the previous round are dead by then and their addresses free.  Keys
    # seen in earlier rounds are remembered by content: key <-> content must
    # stay a bijection over the whole run (a new array that inherits the
    # address of a dead one must not inherit its key).
    key_of_content: dict = {}
    content_of_key: dict = {}
    sample = None
    for _ in range(n):
        salt = rng.randrange(1, 10 ** 6) if rng.random() < 0.8 else 0
        try:
            _v1, g1 = srecipe.build(recipe, None, salt)
            _v2, g2 = srecipe.build(recipe, None, salt)
            ss = mutate.sites(g1)
            m = None
            for _try in range(4):
                node, f = ss[rng.randrange(len(ss))]
                try:
                    cand = mutate.mutate_site(g1, node, f, rng, st.mut_counter)
                except mutate.Ineffective:
                    continue
                if _usable(cand):
                    m = cand
                    break
        except Exception:  # noqa: BLE001
            continue
        cnt["churn_rounds"] += 1
        pairs = [("rebuild", g1, g2)]
        if m is not None:
            pairs.append(("mutant", g1, m))
            pairs.append(("mutant-rev", m, g2))
        # ... and Array-level comparisons (Array.__eq__ is a different entry
        # point from the named-results __eq__): the named outputs and a few
        # interior nodes, position by position
        import pytato as pt
        for label, x, y in list(pairs):
            if isinstance(x, pt.DictOfNamedArrays) and \
                    isinstance(y, pt.DictOfNamedArrays):
                for name in sorted(set(x._data) & set(y._data)):
                    pairs.append((label + "-output", x._data[name],
                                  y._data[name]))
        n1 = [v for v in walker.pytato_nodes(g1) if isinstance(v, pt.Array)]
        n2 = [v for v in walker.pytato_nodes(g2) if isinstance(v, pt.Array)]
        for _k in range(min(4, len(n1), len(n2))):
            i1, i2 = rng.randrange(len(n1)), rng.randrange(len(n2))
            pairs.append(("interior", n1[i1], n2[i2]))
            pairs.append(("interior", n1[i1], n2[min(i1, len(n2) - 1)]))
        for label, x, y in pairs:
            try:
                e = bool(x == y)
                want = walker.canon_key(x, "identity") == \
                    walker.canon_key(y, "identity")
            except Exception:  # noqa: BLE001
                continue
            cnt["churn_comparisons"] += 1
            if e and not want:
                viol.append({"class": "equal-despite-difference:transient-"
                             + label, "handles": [], "detail":
                             "comparison of short-lived graphs (address reuse)"})
            elif want and not e:
                viol.append({"class": "same-structure-but-unequal:transient-"
                             + label, "handles": [], "detail":
                             "comparison of short-lived graphs (address reuse)"})
            if e:
                try:
                    if hash(x) != hash(y):
                        viol.append({"class": "equal-but-hash-differs:transient",
                                     "handles": [], "detail": label})
                except TypeError:
                    pass
            if with_keys:
                try:
                    kx, ky = kb(x), kb(y)
                    cs = walker.canon_key(x, "content", scalar_types=True) == \
                        walker.canon_key(y, "content", scalar_types=True)
                    cl = walker.canon_key(x, "content") == \
                        walker.canon_key(y, "content")
                    if cs and kx != ky:
                        viol.append({"class": "same-structure-but-key-differs",
                                     "handles": [], "detail": "transient " + label})
                    if not cl and kx == ky:
                        viol.append({"class": "key-collision:transient-" + label,
                                     "handles": [], "detail": ""})
                except Exception:  # noqa: BLE001
                    pass
        if with_keys:
            try:
                k1 = kb(g1)
                c1 = walker.canon_key(g1, "content", scalar_types=True)
            except Exception:  # noqa: BLE001
                k1 = None
            if k1 is not None:
                cnt["churn_keys"] = cnt.get("churn_keys", 0) + 1
                if key_of_content.setdefault(c1, k1) != k1:
                    viol.append({"class": "same-structure-but-key-differs",
                                 "handles": [], "detail":
                                 "transient graph rebuilt in a later round "
                                 f"(salt {salt})"})
                if content_of_key.setdefault(k1, c1) != c1:
                    viol.append({"class": "key-collision:transient-rounds",
                                 "handles": [], "detail":
                                 "graphs of two rounds that wrap different "
                                 f"data have one key (salt {salt})"})
                sample = {"salt": salt, "key": k1, "content": c1}
            # ... and every wrapped-data leaf on its own (in the whole graph
            # the change of one leaf can hide behind the change of another)
            from pytato.array import DataWrapper
            for dw in [v for v in walker.pytato_nodes(g1)
                       if isinstance(v, DataWrapper)][:8]:
                try:
                    kd = kb(dw)
                    cd = walker.canon_key(dw, "content", scalar_types=True)
                except Exception:  # noqa: BLE001
                    continue
                cnt["churn_leaf_keys"] = cnt.get("churn_leaf_keys", 0) + 1
                if key_of_content.setdefault(cd, kd) != kd:
                    viol.append({"class": "same-structure-but-key-differs",
                                 "handles": [], "detail":
                                 "wrapped-data leaf rebuilt in a later round"})
                if content_of_key.setdefault(kd, cd) != cd:
                    viol.append({"class": "key-collision:transient-rounds",
                                 "handles": [], "detail":
                                 "wrapped-data leaves of two rounds with "
                                 f"different contents share a key (salt {salt})"})
        del g1, g2, m, pairs
    # leaf alternation: the wrapped data of the recipe, one leaf at a time, in a
    # tight loop -- new contents every round in an array of the same shape and
    # dtype, allocated right after its predecessor was freed (so, at its
    # address): a digest remembered by address now belongs to other data
    if with_keys:
        import pytato as pt
        leaves = [stp for stp in recipe["steps"] if stp["op"] in ("dw", "dwgen")]
        leaves.sort(key=lambda stp: -int(np.prod(stp["p"]["shape"]) or 1))
        for stp in leaves[:3]:
            seen_k: dict = {}
            for t in range(1, 9):
                try:
                    if stp["op"] == "dwgen":
                        arr = srecipe.bulk_data(stp["p"], t)
                    else:
                        arr = srecipe._salted(np.array(
                            stp["p"]["data"], dtype=stp["p"]["dtype"]).reshape(
                                tuple(stp["p"]["shape"])), t)
                    dw = pt.make_data_wrapper(srecipe.layout_array(
                        arr, stp["p"].get("layout", "C")))
                    kd = kb(dw)
                    cd = walker.canon_key(dw, "content", scalar_types=True)
                except Exception:  # noqa: BLE001
                    break
                cnt["leaf_alternations"] = cnt.get("leaf_alternations", 0) + 1
                if seen_k.setdefault(kd, cd) != cd:
                    viol.append({"class": "key-collision:transient-leaf",
                                 "handles": [], "detail":
                                 f"wrapped data of shape {stp['p']['shape']} "
                                 f"{stp['p']['dtype']}: two contents, one key "
                                 f"(round {t})"})
                    break
                del arr, dw
    # same-shape alternation: fresh graphs of the SAME shape (same node kinds,
    # same object count) that are alternately equal and different, built and
    # released hundreds of times in a tight loop.  Whatever an earlier round
    # left behind keyed by ADDRESS sooner or later speaks about other objects
    # (measured against seeded change C04-c04e: the first stale verdict after
    # ~150 rounds).  The recipe itself is used if two fresh builds of it are
    # equal and its `variant` differs; a canned three-node recipe always.
    canned = {"steps": [
        {"op": "ph", "args": [], "p": {"name": "p1", "shape": [3],
                                       "dtype": "float64"}},
        {"op": "scalar", "args": [0], "p": {"c": 1 + seed % 3,
                                            "kind": rng.choice(["mul", "add"])}},
        {"op": rng.choice(["sin", "cos", "exp"]), "args": [1]}],
        "outs": [["out0", 2]], "profile": "any"}
    cands = [(canned, 300)]
    try:
        a0 = srecipe.build(recipe, None, 0, 0)[1]
        b0 = srecipe.build(recipe, None, 0, 0)[1]
        c0 = srecipe.build(recipe, None, 0, 1)[1]
        if bool(a0 == b0) and walker.canon_key(a0, "identity") \
                != walker.canon_key(c0, "identity"):
            cands.append((recipe, 60))
        del a0, b0, c0
    except Exception:  # noqa: BLE001
        pass
    import pytato as pt
    for rcp, rounds in cands:
        for t in range(rounds):
            var = t % 2
            try:
                a = srecipe.build(rcp, None, 0, 0)[1]
                b = srecipe.build(rcp, None, 0, var)[1]
                # the named results one by one (Array.__eq__) and the whole
                # (the named-results __eq__): different entry points
                prs = [(a, b)]
                if isinstance(a, pt.DictOfNamedArrays) \
                        and isinstance(b, pt.DictOfNamedArrays):
                    prs += [(a._data[k], b._data[k]) for k in sorted(a._data)
                            if k in b._data]
                verdicts = [bool(x == y) for x, y in prs]
                wants = [walker.canon_key(x, "identity")
                         == walker.canon_key(y, "identity") for x, y in prs] \
                    if t < 2 else None
                ka, kb_ = (kb(a), kb(b)) if with_keys and t % 10 < 2 \
                    else (None, None)
            except Exception:  # noqa: BLE001
                break
            if wants is not None:
                # what the walker says in the first equal and the first
                # different round holds for all later rounds of that parity
                if var == 0:
                    want_eq = wants
                else:
                    want_ne = wants
            cnt["same_shape_alternations"] = \
                cnt.get("same_shape_alternations", 0) + 1
            ref = want_eq if var == 0 else want_ne
            if verdicts != ref:
                e = verdicts[0] if verdicts[0] != ref[0] else \
                    next(v for v, w in zip(verdicts, ref) if v != w)
                viol.append({
                    "class": ("equal-despite-difference" if e else
                              "same-structure-but-unequal")
                    + ":transient-same-shape", "handles": [],
                    "detail": f"alternation round {t}: fresh graphs at "
                              "recycled addresses"})
                break
            if ka is not None and (ka == kb_) != ref[0]:
                viol.append({
                    "class": ("key-collision" if ka == kb_ else
                              "same-structure-but-key-differs")
                    + ":transient-same-shape", "handles": [],
                    "detail": f"alternation round {t}"})
                break
            # (the order of release decides whether the next round's a lands
            # on this round's a or on this round's b: both are tried)
            if (t // 2) % 2:
                del a
                del b
            else:
                del b
                del a
            del prs
    return {"violations": viol[:6], "counters": cnt, "sample": sample}


def op_recipe_key(st, recipe, salt):
    """key of a graph built here from scratch (reference for another
    interpreter's churn sample)"""
    _v, g = srecipe.build(recipe, None, salt)
    return {"key": st.key_builder()(g),
            "content": walker.canon_key(g, "content", scalar_types=True)}


def op_hash(st, hid, deep=False):
    obj = st.h[hid]
    if deep:
        for v in walker.pytato_nodes(obj):
            try:
                hash(v)
            except TypeError:
                pass
    return hash(obj) & 0xFFFF


def op_pickle(st, hid):
    return pickle.dumps(st.h[hid], protocol=pickle.HIGHEST_PROTOCOL)


def op_is_tainted(st, hid):
    return bool(st.meta.get(hid, {}).get("tainted"))


def op_unpickle(st, hid_new, blob, tainted=False):
    obj = pickle.loads(blob)
    leaks = _leaks(obj)
    st.h[hid_new] = obj
    st.meta[hid_new] = {"origin": ("unpickle",), "tainted": tainted}
    return {"leaks": leaks, **_info(st, hid_new)}


def op_deepcopy(st, hid_new, hid):
    obj = copy.deepcopy(st.h[hid])
    leaks = _leaks(obj)
    st.h[hid_new] = obj
    st.meta[hid_new] = {"origin": ("deepcopy", hid)}
    _taint(st, hid_new, hid)
    return {"leaks": leaks, **_info(st, hid_new)}


def op_key(st, hid):
    return st.key_builder()(st.h[hid])


def op_fresh_key(st, hid):
    """key from a brand-new key builder (no builder-side state)"""
    from pytato.analysis import PytatoKeyBuilder
    return PytatoKeyBuilder()(st.h[hid])


def op_state_size(st, hid):
    """picklable per-object state of the pytato objects: length of the pickle
    (must not grow when a hash or a key has been computed).  loopy translation
    units are left out: loopy's targets cache their own hash in their pickled
    state, which is loopy's business, not pytato's."""
    import io
    import loopy as lp

    class P(pickle.Pickler):
        def persistent_id(self, obj):
            if isinstance(obj, lp.TranslationUnit):
                return "translation-unit"
            return None
    buf = io.BytesIO()
    P(buf, protocol=4).dump(st.h[hid])
    return len(buf.getvalue())


def op_drop(st, hid):
    st.h.pop(hid, None)
    st.meta.pop(hid, None)
    return True


def op_handles(st):
    return sorted(st.h)


def _sig_between(st, a, b):
    for x, y in ((a, b), (b, a)):
        o = st.meta.get(y, {}).get("origin")
        if o and o[0] == "mutate" and o[1] == x:
            return o[2]
    return None


def op_check(st, seed, with_keys=True, max_pairs=400):
    """all-pairs congruence invariants over the live handles of this worker"""
    rng = random.Random(f"check:{seed}")
    hids = sorted(st.h)
    viol = []
    cnt = {"pairs": 0, "equal_pairs": 0, "unequal_pairs": 0, "hash_checks": 0,
           "container_checks": 0, "triples": 0, "key_pairs": 0,
           "field_pairs": 0}
    cid = {}
    ccs = {}
    ccl = {}
    keys = {}
    for h in list(hids):
        obj = st.h[h]
        try:
            cid[h] = walker.canon_key(obj, "identity")
        except Exception:  # noqa: BLE001
            if st.meta.get(h, {}).get("tainted"):
                hids.remove(h)
                continue
            raise
        if with_keys:
            ccs[h] = walker.canon_key(obj, "content", scalar_types=True)
            ccl[h] = walker.canon_key(obj, "content", scalar_types=False)
            try:
                keys[h] = st.key_builder()(obj)
            except Exception as e:  # noqa: BLE001
                keys[h] = None
                if st.meta.get(h, {}).get("tainted"):
                    cnt["skipped_ill_formed_mutant"] = \
                        cnt.get("skipped_ill_formed_mutant", 0) + 1
                else:
                    viol.append({"class": f"key-raised:{type(e).__name__}",
                                 "handles": [h], "detail": str(e)[:200]})
    pairs = [(a, b) for i, a in enumerate(hids) for b in hids[i:]]
    if len(pairs) > max_pairs:
        pairs = rng.sample(pairs, max_pairs)
    eq_rel = {}
    for a, b in pairs:
        x, y = st.h[a], st.h[b]
        cnt["pairs"] += 1
        sig = _sig_between(st, a, b)
        if sig:
            cnt["field_pairs"] += 1
        try:
            e1 = bool(x == y)
            e2 = bool(y == x)
            ne = bool(x != y)
        except Exception as e:  # noqa: BLE001
            if st.meta.get(a, {}).get("tainted") or \
                    st.meta.get(b, {}).get("tainted"):
                cnt["skipped_ill_formed_mutant"] = \
                    cnt.get("skipped_ill_formed_mutant", 0) + 1
            else:
                viol.append({"class": f"eq-raised:{type(e).__name__}",
                             "handles": [a, b], "detail": str(e)[:200]})
            continue
        eq_rel[(a, b)] = e1
        want = cid[a] == cid[b]
        if type(x) is not type(y):
            want = False
        if e1 != e2:
            viol.append({"class": "eq-not-symmetric", "handles": [a, b],
                         "detail": f"{e1} vs {e2}"})
        if ne == e1:
            viol.append({"class": "ne-inconsistent-with-eq", "handles": [a, b],
                         "detail": f"== {e1}, != {ne}"})
        if a == b and not e1:
            viol.append({"class": "eq-not-reflexive", "handles": [a], "detail": ""})
        if e1 and not want:
            viol.append({"class": "equal-despite-difference:"
                         + (sig or "unrelated-pair"),
                         "handles": [a, b],
                         "detail": f"types {type(x).__name__}; origin "
                                   f"{st.meta[b].get('origin')}"})
        if want and not e1:
            viol.append({"class": "same-structure-but-unequal:"
                         + type(x).__name__,
                         "handles": [a, b],
                         "detail": f"origins {st.meta[a].get('origin')} "
                                   f"{st.meta[b].get('origin')}"})
        if e1:
            cnt["equal_pairs"] += 1
            try:
                hx, hy = hash(x), hash(y)
                cnt["hash_checks"] += 1
                if hx != hy:
                    viol.append({"class": "equal-but-hash-differs:"
                                 + type(x).__name__,
                                 "handles": [a, b],
                                 "detail": f"origins {st.meta[a].get('origin')} "
                                           f"{st.meta[b].get('origin')}"})
                else:
                    cnt["container_checks"] += 1
                    if y not in {x} or {x: 1}.get(y) != 1 or \
                            y not in frozenset([x]):
                        viol.append({"class": "equal-but-not-found-in-container",
                                     "handles": [a, b], "detail": ""})
            except TypeError:
                pass
        else:
            cnt["unequal_pairs"] += 1
        if with_keys and keys.get(a) is not None and keys.get(b) is not None:
            cnt["key_pairs"] += 1
            if ccs[a] == ccs[b] and keys[a] != keys[b]:
                viol.append({"class": "same-structure-but-key-differs",
                             "handles": [a, b],
                             "detail": f"origins {st.meta[a].get('origin')} "
                                       f"{st.meta[b].get('origin')}"})
            if ccl[a] != ccl[b] and keys[a] == keys[b]:
                viol.append({"class": "key-collision:" + (sig or "unrelated-pair"),
                             "handles": [a, b],
                             "detail": f"origins {st.meta[a].get('origin')} "
                                       f"{st.meta[b].get('origin')}"})
    # transitivity over sampled triples
    if len(hids) >= 3:
        for _ in range(min(60, len(hids) ** 2)):
            a, b, c = rng.sample(hids, 3)
            try:
                ab = st.h[a] == st.h[b]
                bc = st.h[b] == st.h[c]
                ac = st.h[a] == st.h[c]
            except Exception:  # noqa: BLE001
                continue
            cnt["triples"] += 1
            if ab and bc and not ac:
                viol.append({"class": "eq-not-transitive", "handles": [a, b, c],
                             "detail": ""})
    return {"violations": viol, "counters": cnt,
            "keys": keys if with_keys else {},
            "canon_content": ccs if with_keys else {}}

# }}}

# vim: foldmethod=marker


def op_canon_text(st, hid, mode="identity", scalar_types=False):
    return walker.canon_text(st.h[hid], mode, scalar_types=scalar_types)


# {{{ process actor: this interpreter plays ONE rank of a multi-rank run

class _ProcOp:
    def __init__(self, fn, commute):
        self.fn = fn
        self.commute = commute

    @staticmethod
    def Create(function, commute=False):
        return _ProcOp(function, commute)

    def Free(self):
        pass


class _ProcComm:
    """the collectives of mpi4py, served by the orchestrator over the pipe"""

    def __init__(self, rank, size):
        self.rank = rank
        self.size = size
        self.ncoll = 0

    def Get_rank(self):
        return self.rank

    def Get_size(self):
        return self.size

    def _coll(self, name, obj, root, op=None):
        send, recv = PIPE
        self.ncoll += 1
        send(("coll", name, pickle.dumps(obj, protocol=pickle.HIGHEST_PROTOCOL),
              root, bool(op is not None and op.commute)))
        while True:
            msg = recv()
            if msg[0] == "fold":
                a, b = pickle.loads(msg[1]), pickle.loads(msg[2])
                send(("folded", pickle.dumps(op.fn(a, b, None),
                                             protocol=pickle.HIGHEST_PROTOCOL)))
            elif msg[0] == "coll-result":
                return None if msg[1] is None else pickle.loads(msg[1])
            elif msg[0] == "coll-result-list":
                return [pickle.loads(b) for b in msg[1]]
            elif msg[0] == "abort":
                raise RuntimeError("run aborted by the orchestrator")
            else:
                raise RuntimeError(f"unexpected message {msg[0]}")

    def bcast(self, obj, root=0):
        return self._coll("bcast", obj, root)

    def gather(self, sendobj, root=0):
        return self._coll("gather", sendobj, root)

    def allreduce(self, sendobj, op=None):
        return self._coll("allreduce", sendobj, 0, op)

    def allgather(self, sendobj):
        return self._coll("allgather", sendobj, 0)

    def barrier(self):
        return self._coll("barrier", None, 0)

    Barrier = barrier


def op_rank_run(st, recipe, rank, faults=(), stop_after="tags"):
    """run find_distributed_partition + verify (+ number_distributed_tags) as
    rank *rank* of the recipe, in THIS interpreter (own hash seed and heap).
    An exception of the code under test is part of the result."""
    try:
        return _rank_run(st, recipe, rank, faults, stop_after)
    except Exception as e:  # noqa: BLE001
        import traceback
        return {"raised": {"type": type(e).__name__,
                           "mro": [c.__name__ for c in type(e).__mro__],
                           "msg": str(e)[:300],
                           "tb": traceback.format_exc()[-1500:]}}


def _rank_run(st, recipe, rank, faults, stop_after):
    import sys
    import types
    import pytato as pt
    from . import mrecipe, partcheck
    mpi4py = types.ModuleType("mpi4py")
    mpi = types.ModuleType("mpi4py.MPI")
    mpi.Op = _ProcOp
    mpi4py.MPI = mpi
    sys.modules["mpi4py"] = mpi4py
    sys.modules["mpi4py.MPI"] = mpi
    try:
        return _rank_run_inner(st, recipe, rank, faults, stop_after)
    finally:
        # give the thread-simulator facade back to later commands
        from . import simmpi
        sys.modules.pop("mpi4py", None)
        sys.modules.pop("mpi4py.MPI", None)
        simmpi.install_fake_mpi4py()


def _rank_run_inner(st, recipe, rank, faults, stop_after):
    import pytato as pt
    from . import mrecipe, partcheck
    dag = mrecipe.build_rank(recipe, rank, faults=faults)
    comm = _ProcComm(rank, recipe["nranks"])
    part = pt.find_distributed_partition(comm, dag)
    pt.verify_distributed_partition(comm, part)
    if stop_after == "verify":
        return {"returned": True, "collectives": comm.ncoll}
    npart, next_tag = pt.number_distributed_tags(comm, part, base_tag=4242)
    local = partcheck.check_local(rank, dag, part)
    from . import c17rec
    return {"partition": pickle.dumps(part, protocol=pickle.HIGHEST_PROTOCOL),
            "numbered": pickle.dumps(npart, protocol=pickle.HIGHEST_PROTOCOL),
            "next_tag": next_tag, "local_violations": local,
            "text": c17rec._part_text(part, npart, next_tag),
            "collectives": comm.ncoll}

# }}}


def op_addr_probe(st):
    """addresses of a few fresh objects (determinism self-test)"""
    import pytato as pt
    objs = [object(), [], {}, pt.make_placeholder("addr_probe", (2,), "float64")]
    return [hex(id(o)) for o in objs]


def op_dbg_single(st, recipe, what):
    import loopy as lp
    import pytato as pt
    _vals, out = srecipe.build(recipe)
    if not isinstance(out, pt.DictOfNamedArrays):
        out = pt.make_dict_of_named_arrays({"_out": out})
    try:
        o = pt.transform.deduplicate(pt.tag_all_calls_to_be_inlined(out))
        if what == "build":
            return 0
        bp = pt.generate_loopy(o)
        if what == "loopy":
            return 1
        if what == "key":
            from loopy.tools import LoopyKeyBuilder
            LoopyKeyBuilder()(bp.program)
            return 2
        if what == "code":
            lp.generate_code_v2(bp.program).device_code()
            return 3
    except Exception:  # noqa: BLE001
        return -1


# {{{ process actor for the full pipeline (C08): point-to-point over the pipe

class _Abort(RuntimeError):
    pass


def _expect(kind):
    _send, recv = PIPE
    msg = recv()
    if msg[0] == "abort":
        raise _Abort("run aborted by the orchestrator")
    if msg[0] != kind:
        raise RuntimeError(f"expected {kind}, got {msg[0]}")
    return msg


class _ProcRequest:
    def __init__(self, rid, buf=None):
        self.rid = rid
        self.buf = buf
        self.done = False

    def _fill(self, data):
        if self.buf is not None and data is not None and self.buf.size:
            self.buf.reshape(-1).view(np.uint8)[...] = \
                np.frombuffer(data, dtype=np.uint8)
        self.done = True

    def Wait(self, status=None):
        if self.done:
            return True
        send, _recv = PIPE
        send(("wait", self.rid))
        msg = _expect("wait-ret")
        self._fill(msg[1])
        return True

    wait = Wait

    @staticmethod
    def Waitall(requests, statuses=None):
        for r in requests:
            r.Wait()
        return True

    @staticmethod
    def Waitany(requests, status=None):
        res = _ProcRequest.Waitsome(requests, _only_one=True)
        return res[0] if res else -32766

    @staticmethod
    def Waitsome(requests, statuses=None, _only_one=False):
        send, _recv = PIPE
        send(("waitsome", [r.rid for r in requests], _only_one))
        msg = _expect("waitsome-ret")
        idx, data = msg[1], msg[2]
        if idx:
            for i in idx:
                requests[i]._fill(data.get(requests[i].rid))
        return idx


class _ProcComm2(_ProcComm):
    def _coll(self, name, obj, root, op=None):
        send, recv = PIPE
        self.ncoll += 1
        send(("coll", name, pickle.dumps(obj, protocol=pickle.HIGHEST_PROTOCOL),
              root, bool(op is not None and op.commute)))
        while True:
            msg = recv()
            if msg[0] == "fold":
                a, b = pickle.loads(msg[1]), pickle.loads(msg[2])
                send(("folded", pickle.dumps(op.fn(a, b, None),
                                             protocol=pickle.HIGHEST_PROTOCOL)))
            elif msg[0] == "coll-result":
                return None if msg[1] is None else pickle.loads(msg[1])
            elif msg[0] == "coll-result-list":
                return [pickle.loads(b) for b in msg[1]]
            elif msg[0] == "abort":
                raise _Abort("run aborted by the orchestrator")
            else:
                raise RuntimeError(f"unexpected message {msg[0]}")

    def Isend(self, buf, dest, tag=0):
        send, _recv = PIPE
        data = np.asarray(buf)
        if not (data.flags.c_contiguous or data.flags.f_contiguous):
            raise ValueError("ndarray is not contiguous")    # as mpi4py
        # the buffer's MEMORY, in memory order
        send(("isend", data.tobytes(order="A"), int(dest), int(tag)))
        msg = _expect("req")
        return _ProcRequest(msg[1])

    def Irecv(self, buf, source, tag=0):
        send, _recv = PIPE
        if buf.size:
            buf.reshape(-1).view(np.uint8)[...] = 0xAB      # poison
        send(("irecv", int(buf.nbytes), int(source), int(tag)))
        msg = _expect("req")
        return _ProcRequest(msg[1], buf)


def op_rank_exec(st, recipe, rank, iterations=1, f_order_inputs=False,
                 extra_inputs=False):
    try:
        return _rank_exec(st, recipe, rank, iterations, f_order_inputs,
                          extra_inputs)
    except Exception as e:  # noqa: BLE001
        import traceback
        return {"raised": {"type": type(e).__name__,
                           "mro": [c.__name__ for c in type(e).__mro__],
                           "msg": str(e)[:300],
                           "tb": traceback.format_exc()[-1500:]}}


def _rank_exec(st, recipe, rank, iterations, f_order_inputs=False,
               extra_inputs=False):
    import sys
    import types
    import pytato as pt
    from . import distrun, mrecipe      # (also patches pyopencl.array.to_device)
    mpi4py = types.ModuleType("mpi4py")
    mpi = types.ModuleType("mpi4py.MPI")
    mpi.Op = _ProcOp
    mpi.Request = _ProcRequest
    null = _ProcRequest(-1)
    null.done = True
    mpi.REQUEST_NULL = null
    mpi4py.MPI = mpi
    sys.modules["mpi4py"] = mpi4py
    sys.modules["mpi4py.MPI"] = mpi
    try:
        dag = mrecipe.build_rank(recipe, rank)
        comm = _ProcComm2(rank, recipe["nranks"])
        part = pt.find_distributed_partition(comm, dag)
        pt.verify_distributed_partition(comm, part)
        npart, _next_tag = pt.number_distributed_tags(comm, part, base_tag=4242)
        monitor = {"violations": [], "part_execs": [],
                   "codegen_own_failures": 0}
        import collections
        monitor["shadow"] = collections.Counter()
        prgs = {pid: distrun.StubProgram(rank, p, npart, monitor)
                for pid, p in npart.parts.items()}
        inputs = distrun.shape_inputs(mrecipe.rank_inputs(recipe, rank),
                                      f_order=f_order_inputs,
                                      extra=extra_inputs)
        outs = []
        for _it in range(iterations):
            out = pt.execute_distributed_partition(
                npart, prgs, None, comm, input_args=dict(inputs))
            outs.append({k: np.array(v) for k, v in out.items()})
        return {"outs": outs, "violations": monitor["violations"],
                "nparts": len(npart.parts), "stage": "executed"}
    finally:
        # give the thread-simulator facade back to later commands
        from . import simmpi
        sys.modules.pop("mpi4py", None)
        sys.modules.pop("mpi4py.MPI", None)
        simmpi.install_fake_mpi4py()

# }}}
