"""Shared driver: deterministic re-exec, fork pool, evidence, known findings,
replay files."""
from __future__ import annotations

import faulthandler
import hashlib
import json
import os
import pickle
import platform
import select
import shutil
import signal
import subprocess
import sys
import time
import traceback

VERIF_DIR = os.path.dirname(os.path.dirname(os.path.abspath(__file__)))
EVIDENCE_DIR = os.environ.get("VERIF_EVIDENCE_DIR",
                              os.path.join(VERIF_DIR, "evidence"))
REPLAY_DIR = os.environ.get("VERIF_REPLAY_DIR",
                            os.path.join(VERIF_DIR, "replays"))
KNOWN_FINDINGS = os.path.join(VERIF_DIR, "known_findings.json")
PYTHON = "/venv/bin/python"


class HarnessError(Exception):
    pass


# {{{ deterministic environment

def child_env(hashseed="0", extra=None):
    env = dict(os.environ)
    env["PYTHONHASHSEED"] = str(hashseed)
    env["VERIF_CHILD"] = "1"
    env["LOOPY_NO_CACHE"] = "1"
    env["PYTHONDONTWRITEBYTECODE"] = "1"
    env["PYTHONWARNINGS"] = "ignore"
    env["OMP_NUM_THREADS"] = "1"
    env["OPENBLAS_NUM_THREADS"] = "1"
    env.setdefault("XDG_CACHE_HOME", "/tmp/verif-xdg-cache")
    # pytato's creation-traceback tagging must be at its default (off)
    env.pop("PYTATO_DEBUG", None)
    if extra:
        env.update(extra)
    return env


def setarch_prefix():
    exe = shutil.which("setarch")
    if exe is None:
        return []
    try:
        r = subprocess.run([exe, platform.machine(), "-R", "true"],
                           capture_output=True, timeout=20)
        if r.returncode == 0:
            return [exe, platform.machine(), "-R"]
    except Exception:  # noqa: BLE001
        pass
    return []


def reexec_deterministic():
    """Re-execute this process with ASLR off and PYTHONHASHSEED=0, so that
    object addresses and string hashes are a function of the execution."""
    if os.environ.get("VERIF_CHILD") == "1":
        return
    env = child_env()
    argv = [*setarch_prefix(), PYTHON, "-X", "faulthandler", *sys.argv]
    env["VERIF_ASLR_OFF"] = "1" if len(argv) > len(sys.argv) + 3 else "0"
    sys.stdout.flush()
    os.execvpe(argv[0], argv, env)


def private_tmpdir():
    """Everything this check and its children (forked streams, fleet workers,
    gcc runs of loopy's C target) put into the temp directory goes into one
    private directory that is removed when the check ends."""
    import atexit
    import tempfile
    # always directly under /tmp, whatever TMPDIR this process inherited: the
    # environment of the fleet interpreters must have the same SHAPE (variables
    # and string lengths) in a check and in the replay it spawns, or object
    # addresses -- and with them address-dependent findings -- would differ
    d = tempfile.mkdtemp(prefix="verif-run-", dir="/tmp")
    os.environ["TMPDIR"] = d
    tempfile.tempdir = d
    owner = os.getpid()

    def cleanup():
        if os.getpid() == owner:
            shutil.rmtree(d, ignore_errors=True)
    atexit.register(cleanup)
    return d


def assert_repo_pytato():
    import pytato
    f = os.path.realpath(pytato.__file__)
    root = os.environ.get("VERIF_PYTATO_ROOT", "/repo")
    if not f.startswith(os.path.realpath(root) + os.sep):
        raise HarnessError(f"pytato imported from {f}, expected under {root}")
    return f

# }}}


# {{{ fork pool: every task runs in a fresh fork of the parent

def forkpool(tasks, fn, nproc=None, timeout=600.0, stop_when=None,
             deadline=None):
    """Run fn(task) for every task, each in its own forked child (so each task
    starts from the same heap state).  Yields (index, task, status, result)
    in completion order; status is "ok", "error" (result: traceback text),
    "timeout" or "skipped"."""
    if nproc is None:
        nproc = int(os.environ.get("VERIF_NPROC", "0")) or os.cpu_count() or 4
    pending = list(enumerate(tasks))
    pending.reverse()
    running: dict = {}          # fd -> dict(pid, idx, task, buf, t0)
    stop = False
    while pending or running:
        while pending and len(running) < nproc and not stop:
            if deadline is not None and time.monotonic() > deadline:
                stop = True
                break
            idx, task = pending.pop()
            rfd, wfd = os.pipe()
            sys.stdout.flush()
            sys.stderr.flush()
            pid = os.fork()
            if pid == 0:
                os.close(rfd)
                code = 0
                try:
                    faulthandler.enable()
                    faulthandler.dump_traceback_later(max(timeout - 5, 5),
                                                      exit=False)
                    try:
                        payload = ("ok", fn(task))
                    except BaseException:  # noqa: BLE001
                        payload = ("error", traceback.format_exc())
                    blob = pickle.dumps(payload, protocol=pickle.HIGHEST_PROTOCOL)
                    with os.fdopen(wfd, "wb") as f:
                        f.write(blob)
                except BaseException:  # noqa: BLE001
                    code = 3
                finally:
                    os._exit(code)
            os.close(wfd)
            running[rfd] = {"pid": pid, "idx": idx, "task": task,
                            "buf": bytearray(), "t0": time.monotonic()}
        if stop and pending:
            for idx, task in reversed(pending):
                yield idx, task, "skipped", None
            pending = []
        if not running:
            break
        ready, _, _ = select.select(list(running), [], [], 1.0)
        now = time.monotonic()
        for fd in ready:
            info = running[fd]
            chunk = os.read(fd, 1 << 20)
            if chunk:
                info["buf"] += chunk
                continue
            os.close(fd)
            del running[fd]
            os.waitpid(info["pid"], 0)
            try:
                status, result = pickle.loads(bytes(info["buf"]))
            except Exception:  # noqa: BLE001
                status, result = "error", "child died without a result " \
                    f"(task {info['idx']})"
            yield info["idx"], info["task"], status, result
            if stop_when is not None and status == "ok" and stop_when(result):
                stop = True
        for fd in list(running):
            info = running[fd]
            if now - info["t0"] > timeout:
                try:
                    os.kill(info["pid"], signal.SIGKILL)
                except ProcessLookupError:
                    pass
                os.close(fd)
                os.waitpid(info["pid"], 0)
                del running[fd]
                yield info["idx"], info["task"], "timeout", None

# }}}


# {{{ known findings

def load_known_findings(prop):
    if not os.path.exists(KNOWN_FINDINGS):
        return []
    with open(KNOWN_FINDINGS) as f:
        data = json.load(f)
    return [k for k in data.get("findings", [])
            if k.get("property") == prop and k.get("status") == "open"]

# }}}


# {{{ evidence / replay files

def sha(text: str, n=16) -> str:
    return hashlib.sha256(text.encode()).hexdigest()[:n]


def write_evidence(prop, tier, seed, level, coverage, wall_s, violations,
                   assumptions, extra=None):
    os.makedirs(EVIDENCE_DIR, exist_ok=True)
    doc = {
        "property_id": prop, "tier": tier, "seed": int(seed), "level": level,
        "coverage": coverage, "assumptions": assumptions,
        "wall_s": round(float(wall_s), 2), "violations": int(violations),
    }
    if extra:
        doc.update(extra)
    path = os.path.join(EVIDENCE_DIR, f"{prop}.json")
    tmp = path + ".tmp"
    with open(tmp, "w") as f:
        json.dump(doc, f, indent=1, sort_keys=True, default=_json_default)
        f.write("\n")
    os.replace(tmp, path)
    return path


def _json_default(o):
    import numpy as np
    if isinstance(o, (np.integer,)):
        return int(o)
    if isinstance(o, (np.floating,)):
        return float(o)
    if isinstance(o, np.ndarray):
        return o.tolist()
    if isinstance(o, (set, frozenset)):
        return sorted(o, key=repr)
    if isinstance(o, tuple):
        return list(o)
    return repr(o)


def write_replay(prop, name, doc):
    os.makedirs(REPLAY_DIR, exist_ok=True)
    path = os.path.join(REPLAY_DIR, f"{prop}-{name}.json")
    with open(path, "w") as f:
        json.dump(doc, f, indent=1, default=_json_default)
        f.write("\n")
    return path


def confirm_replay(prop, path, timeout=600):
    """replay in a fresh process; True iff the same violation class recurs"""
    cmd = [os.path.join(VERIF_DIR, "check"), prop, "--replay", path]
    env = dict(os.environ)
    env.pop("VERIF_CHILD", None)
    try:
        r = subprocess.run(cmd, capture_output=True, text=True, timeout=timeout,
                           env=env, cwd=VERIF_DIR)
    except subprocess.TimeoutExpired:
        return False, "replay timed out"
    return r.returncode == 1 and "VIOLATION" in r.stdout, \
        (r.stdout[-2000:] + r.stderr[-2000:])

# }}}


def get_seed() -> int:
    try:
        return int(os.environ.get("VERIF_SEED", "0"))
    except ValueError:
        return int(sha(os.environ["VERIF_SEED"], 8), 16)


class Timer:
    def __init__(self):
        self.t0 = time.monotonic()

    def __call__(self):
        return time.monotonic() - self.t0

# vim: foldmethod=marker
