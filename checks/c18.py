"""C18 -- persistent hash keys identify a computation faithfully across
processes (same histories as C04 with one more observation per handle: the
PytatoKeyBuilder key)."""
from __future__ import annotations

from checks import histmain

PROP = "C18"

TIERS = {
    "quick": {"sessions": 10, "workers": [2, 3], "histories": 70,
              "budget_s": None},
    "thorough": {"sessions": 600, "workers": [2, 3, 4], "histories": 60,
                 "budget_s": 15 * 60},
}

ASSUMPTIONS = [
    "must-agree direction: graphs with the same canonical form (content mode: "
    "a DataWrapper is dtype + shape + bytes; scalar types distinguished) must "
    "get the same key in every interpreter, before and after pickling, "
    "whether or not hash() was forced first",
    "must-differ direction: graphs whose canonical forms differ (scalar types "
    "not distinguished) must get different keys; includes wrapped data "
    "differing in one element, in dtype with identical bytes, in shape with "
    "identical bytes",
    "creation-traceback tagging at its default (off): PYTATO_DEBUG is removed "
    "from the workers' environment",
    "the key builder caches a digest on each object "
    "(_pytools_persistent_hash_digest); the check requires that this does not "
    "change the pickled size of pytato objects and that a fresh key builder "
    "returns the same key",
]


def run_check(tier, budget_s=None):
    return histmain.run_check(PROP, TIERS, ASSUMPTIONS, tier, budget_s)


def run_replay(path):
    return histmain.run_replay(PROP, path)
