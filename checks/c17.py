"""C17 -- code generation, partitioning and tag numbering are
process-independent.  Engine E2 (interpreter fleet), with E1 (SimMPI, same seed
in every interpreter) inside each worker for the partition / tag part.

A session = K interpreters (distinct PYTHONHASHSEED, heap prelude, ASLR off) x
one batch of recipes.  Every worker processes the batch in its own seeded
order, interleaved with junk-graph allocation history, and produces every
record twice (early and late in its life).  Oracle: byte equality of every
record across all workers and both productions."""
from __future__ import annotations

import collections
import copy
import difflib
import json
import os
import random
import sys
import time

from simkit import driver, fleet, mrecipe, srecipe

PROP = "C17"

TIERS = {
    "quick": {"sessions": 5, "workers": 3, "single": 36, "multi": 320,
              "budget_s": None, "worlds": 120, "alternations": 1,
              "alt_rounds": 250},
    "thorough": {"sessions": 400, "workers": 4, "single": 60, "multi": 400,
                 "budget_s": 25 * 60, "worlds": 300, "alternations": 4,
                 "alt_rounds": 400},
}

ASSUMPTIONS = [
    "setarch -R makes object addresses a function of the execution; the heap "
    "prelude (seeded allocations before importing pytato/loopy) moves class "
    "objects and everything after to per-seed reproducible addresses",
    "records are printed by the harness's canonical printer: set-valued fields "
    "sorted by canonical text, ordered results (argument lists, instruction "
    "lists, dict iteration order of parts / name_to_output / name_to_recv_node "
    "/ name_to_send_nodes, overall_output_names) in pytato's order",
    "the SimMPI seed is held equal across interpreters for one recipe (the "
    "property promises independence of the interpreter, not of MPI's "
    "reduction order)",
    "no JAX in the sandbox: the Python target is exercised through a "
    "NumpyLikePythonTarget subclass naming numpy as the module",
    "loopy's own code generation (generate_code_v2) is part of the compared "
    "pipeline; a process-dependence inside loopy would be reported as a "
    "pytato violation (none seen)",
]


def _session_plan(seed, session, conf):
    rng = random.Random(f"{seed}:{PROP}:{session}")
    k = conf["workers"]
    cfgs = fleet.draw_configs(rng, k, optimize_all=(session % 3 == 1))
    recipes = []
    for i in range(conf["single"]):
        r = srecipe.gen_recipe(random.Random(f"{seed}:{PROP}:{session}:s{i}"),
                               "codegen")
        recipes.append({"kind": "single", "id": f"s{i}", "recipe": r,
                        "with_c": i % 3 == 0})
    for i in range(conf["multi"]):
        r = mrecipe.gen_recipe(random.Random(f"{seed}:{PROP}:{session}:m{i}"))
        recipes.append({"kind": "multi", "id": f"m{i}", "recipe": r,
                        "sim_seed": rng.randrange(10 ** 6),
                        "with_codegen": i % 6 == 0})
    for i in range(conf.get("alternations", 0)):
        recipes.append({"kind": "alt", "id": f"alt{i}",
                        "recipe": {"family": (session + i) % 4,
                                   "rounds": conf.get("alt_rounds", 250)}})
    # per-worker command lists: every recipe twice, junk in between
    plans = []
    for w in range(k):
        wr = random.Random(f"{seed}:{PROP}:{session}:order{w}")
        first = list(range(len(recipes)))
        wr.shuffle(first)
        second = list(range(len(recipes)))
        wr.shuffle(second)
        cmds = [("fingerprint", None)]
        for pos, ri in enumerate(first + second):
            if wr.random() < 0.08:
                cmds.append(("junk", {"seed": wr.randrange(10 ** 6),
                                      "n": wr.randint(1, 12),
                                      "keep": wr.choice([0.0, 0.3, 0.8])}))
            cmds.append(("rec", ri))
            if pos < len(first) and recipes[ri]["kind"] == "single" \
                    and wr.random() < 0.3:
                cmds.append(("probe", ri))
        plans.append(cmds)
    return cfgs, recipes, plans


def _issue(worker, recipes, cmd):
    kind, arg = cmd
    if kind == "fingerprint":
        return worker.call("fingerprint")
    if kind == "junk":
        return worker.call("junk", **arg)
    r = recipes[arg]
    if kind == "probe":
        return worker.call("set_probe", recipe=r["recipe"])
    if r["kind"] == "alt":
        return worker.call("c17_alternation", **r["recipe"])
    if r["kind"] == "single":
        return worker.call("c17_single", recipe=r["recipe"], with_c=r["with_c"])
    return worker.call("c17_multi", recipe=r["recipe"], sim_seed=r["sim_seed"],
                       with_codegen=r["with_codegen"])


def _first_diff(a, b):
    """(field, short diff) between two record dicts"""
    for k in sorted(set(a) | set(b)):
        if a.get(k) != b.get(k):
            x, y = a.get(k), b.get(k)
            if isinstance(x, str) and isinstance(y, str):
                d = list(difflib.unified_diff(x.splitlines(), y.splitlines(),
                                              lineterm="", n=0))[2:8]
                return k, [ln[:240] for ln in d]
            return k, [repr(x)[:240], repr(y)[:240]]
    return None, []


def run_session(task):
    seed, session, conf = task
    t0 = time.monotonic()
    cfgs, recipes, plans = _session_plan(seed, session, conf)
    workers = [fleet.Worker.from_config(c, f"{session}.{i}")
               for i, c in enumerate(cfgs)]
    res = {"session": session, "records": 0, "violations": [], "fps": [],
           "probe_diff": 0, "probes": 0, "errors": collections.Counter(),
           "compared": 0, "nontrivial": set(), "samples": [], "configs": cfgs,
           "harness": [], "junk_ops": 0, "wall": 0.0}
    # records[ri] = list of (worker, production index, record)
    records: dict = {}
    probes: dict = {}
    try:
        maxlen = max(len(p) for p in plans)
        history = [[] for _ in workers]
        for pos in range(maxlen):
            for wi, w in enumerate(workers):
                if pos >= len(plans[wi]):
                    continue
                cmd = plans[wi][pos]
                try:
                    out = _issue(w, recipes, cmd)
                except fleet.WorkerError as e:
                    res["harness"].append(f"worker {wi} {cmd[0]}: {str(e)[-500:]}")
                    continue
                history[wi].append(cmd)
                if cmd[0] == "fingerprint":
                    res["fps"].append(json.dumps(out, sort_keys=True))
                elif cmd[0] == "junk":
                    res["junk_ops"] += 1
                elif cmd[0] == "probe":
                    probes.setdefault(cmd[1], []).append(out)
                else:
                    lst = records.setdefault(cmd[1], [])
                    nth = sum(1 for x in lst if x[0] == wi)
                    lst.append((wi, nth, out, len(history[wi]) - 1))
                    res["records"] += 1
        for ri in sorted(records):
            lst = records[ri]
            ref = lst[0]
            ok = True
            for other in lst[1:]:
                res["compared"] += 1
                if other[2] != ref[2]:
                    ok = False
                    field, diff = _first_diff(ref[2], other[2])
                    cls = ("differs-between-interpreters"
                           if other[0] != ref[0] else "differs-within-one-process")
                    res["violations"].append({
                        "class": f"{cls}:{recipes[ri]['kind']}:{_field_class(field)}",
                        "recipe": recipes[ri], "field": field, "diff": diff,
                        "a": {"worker": ref[0], "config": cfgs[ref[0]],
                              "production": ref[1],
                              "history": _hist(plans[ref[0]], ref[3], recipes)},
                        "b": {"worker": other[0], "config": cfgs[other[0]],
                              "production": other[1],
                              "history": _hist(plans[other[0]], other[3], recipes)},
                    })
                    break
            if ok and recipes[ri]["kind"] == "alt":
                for other in lst:
                    if _alt_bad(other[2]):
                        ok = False
                        side = {"worker": other[0], "config": cfgs[other[0]],
                                "production": other[1],
                                "history": _hist(plans[other[0]], other[3],
                                                 recipes)}
                        res["violations"].append({
                            "class": "differs-within-one-process:alt:text",
                            "recipe": recipes[ri], "field": "alt",
                            "diff": [str(other[2].get("alt"))],
                            "a": side, "b": side})
                        break
            rec0 = ref[2]
            for k, v in rec0.items():
                if isinstance(v, str) and v.startswith("ERR"):
                    res["errors"][f"{recipes[ri]['kind']}:{k}:{v}"] += 1
            if ok and not any(isinstance(v, str) and v.startswith("ERR")
                              for v in rec0.values()):
                res["nontrivial"].add(
                    driver.sha(json.dumps(recipes[ri]["recipe"], sort_keys=True)))
            if len(res["samples"]) < 2 and ok and recipes[ri]["kind"] == "single":
                res["samples"].append({
                    "recipe": recipes[ri]["recipe"],
                    "record_fields": {k: (v if not isinstance(v, str)
                                          else v[:400]) for k, v in rec0.items()},
                    "productions_compared": len(lst)})
        # one interpreter per rank vs all ranks in one interpreter: the same
        # recipe, the same (plain, rank-order) reduction; every rank's
        # partition and tag numbering must be the same text in both worlds
        from simkit import procranks
        nworld = 0
        for ri, entry in enumerate(recipes):
            if entry["kind"] != "multi" or nworld >= conf.get("worlds", 0):
                continue
            rc = entry["recipe"]
            if not (2 <= rc["nranks"] <= len(workers)):
                continue
            nworld += 1
            try:
                ref = workers[0].call("c17_multi", recipe=rc, sim_seed=0,
                                      fixed=True)
                state, results, _st = procranks.run(
                    workers, rc, random.Random(0), shuffle=False)
            except fleet.WorkerError as e:
                res["harness"].append(f"world run: {str(e)[-400:]}")
                continue
            res["world_runs"] = res.get("world_runs", 0) + 1
            for r in range(rc["nranks"]):
                got = results[r].get("text") if state[r] == "returned" else \
                    f"{state[r]} {str(results.get(r))[:200]}"
                if got != ref.get(f"rank{r}"):
                    d = list(difflib.unified_diff(
                        str(ref.get(f"rank{r}")).splitlines(),
                        str(got).splitlines(), lineterm="", n=0))[2:8]
                    res["violations"].append({
                        "class": "differs-between-one-interpreter-and-one-"
                                 "interpreter-per-rank:partition",
                        "recipe": entry, "field": f"rank{r}",
                        "diff": [ln[:240] for ln in d], "world": True,
                        "a": {"worker": 0, "config": cfgs[0], "production": 0,
                              "history": []},
                        "b": {"worker": r, "config": cfgs[r], "production": 0,
                              "history": []},
                        "configs": cfgs})
                    break
        for ri, outs in probes.items():
            res["probes"] += 1
            if any(o != outs[0] for o in outs[1:]):
                res["probe_diff"] += 1
    finally:
        for w in workers:
            w.close()
    res["wall"] = time.monotonic() - t0
    res["violations"] = res["violations"][:4]
    return res


def _field_class(field):
    return field if field and not field.startswith("rank") else (
        "partition" if field and not field.endswith("_code") else "part-code")


def _hist(plan, upto, recipes):
    """the commands a worker executed before (and including) a record: enough
    to reproduce its allocation history"""
    out = []
    for cmd in plan[:upto + 1]:
        out.append([cmd[0], cmd[1]])
    return out


# {{{ replay / confirm

def _produce(cfg, recipe_entry, history=None, recipes=None):
    w = fleet.Worker.from_config(cfg, "replay")
    try:
        if history:
            for kind, arg in history[:-1]:
                try:
                    _issue(w, recipes, (kind, arg))
                except fleet.WorkerError:
                    pass
        return _issue(w, [recipe_entry], ("rec", 0))
    finally:
        w.close()


def _world_differs(cfgs, rc):
    from simkit import procranks
    ws = [fleet.Worker.from_config(c, f"w{i}")
          for i, c in enumerate(cfgs)]
    try:
        ref = ws[0].call("c17_multi", recipe=rc, sim_seed=0, fixed=True)
        state, results, _st = procranks.run(ws, rc, random.Random(0),
                                            shuffle=False)
    finally:
        for w in ws:
            w.close()
    for r in range(rc["nranks"]):
        got = results[r].get("text") if state[r] == "returned" else \
            f"{state[r]} {str(results.get(r))[:200]}"
        if got != ref.get(f"rank{r}"):
            return True, (f"rank{r}", [str(ref.get(f"rank{r}"))[:300],
                                       str(got)[:300]])
    return False, (None, [])


def _alt_bad(rec):
    """an alternation record that saw the text of the fixed program change"""
    return isinstance(rec, dict) and rec.get("alt", "stable") != "stable" \
        and not str(rec["alt"]).startswith("ERR baseline")


def replay_doc(doc):
    """re-launch the two interpreters; True iff their records differ again"""
    entry = doc["recipe_entry"]
    if doc.get("world"):
        return _world_differs(doc["configs"], entry["recipe"])
    if entry["kind"] == "alt":
        # the record itself says whether the text changed within the process
        for side in ("a", "b"):
            for hist in (None, doc[side].get("history")):
                if hist is not None and doc.get("session_recipes") is None:
                    continue
                r = _produce(doc[side]["config"], entry, hist,
                             doc.get("session_recipes"))
                if _alt_bad(r):
                    return True, ("alt", [str(r.get("alt"))])
        return False, (None, [])
    a = _produce(doc["a"]["config"], entry)
    b = _produce(doc["b"]["config"], entry)
    if a != b:
        return True, _first_diff(a, b)
    if doc.get("session_recipes") is not None:
        a = _produce(doc["a"]["config"], entry, doc["a"]["history"],
                     doc["session_recipes"])
        b = _produce(doc["b"]["config"], entry, doc["b"]["history"],
                     doc["session_recipes"])
        if a != b:
            return True, _first_diff(a, b)
    return False, (None, [])


def _shrink_single(recipe):
    """simpler single-rank recipes"""
    if len(recipe["outs"]) > 1:
        for i in range(len(recipe["outs"])):
            rc = copy.deepcopy(recipe)
            del rc["outs"][i]
            yield rc
    # cut the tail: make an earlier value the only output
    used = sorted({o[1] for o in recipe["outs"]})
    for v in used:
        for a in recipe["steps"][v]["args"]:
            rc = copy.deepcopy(recipe)
            rc["outs"] = [[o[0], a if o[1] == v else o[1]] for o in rc["outs"]]
            yield rc


def minimise(v, budget_s=120.0):
    t0 = time.monotonic()
    entry = copy.deepcopy(v["recipe"])
    ca, cb = v["a"]["config"], v["b"]["config"]

    def differs(e):
        try:
            if v.get("world"):
                if e["recipe"]["nranks"] < 2:
                    return False
                return _world_differs(v["configs"], e["recipe"])[0]
            if e["kind"] == "alt":
                return _alt_bad(_produce(ca, e)) or _alt_bad(_produce(cb, e))
            return _produce(ca, e) != _produce(cb, e)
        except Exception:  # noqa: BLE001
            return False
    if not differs(entry):
        return entry, False
    progress = True
    while progress and time.monotonic() - t0 < budget_s:
        progress = False
        if entry["kind"] == "alt":
            break           # nothing to shrink: a canned program family
        cands = mrecipe.shrink_candidates(entry["recipe"]) \
            if entry["kind"] == "multi" else _shrink_single(entry["recipe"])
        for rc in cands:
            if time.monotonic() - t0 > budget_s:
                break
            e2 = dict(entry, recipe=rc)
            if differs(e2):
                entry = e2
                progress = True
                break
    return entry, True

# }}}


def run_check(tier, budget_s=None):
    seed = driver.get_seed()
    conf = dict(TIERS[tier])
    if budget_s:
        conf["budget_s"] = budget_s
    timer = driver.Timer()
    pyt = driver.assert_repo_pytato()
    print(f"[{PROP}] tier={tier} VERIF_SEED={seed} pytato={pyt}", flush=True)
    tasks = [(seed, s, conf) for s in range(conf["sessions"])]
    deadline = time.monotonic() + conf["budget_s"] if conf["budget_s"] else None
    nproc = max(1, (os.cpu_count() or 4) // conf["workers"])
    results = []
    trouble = []
    bad = 0

    def stop_when(r):
        nonlocal bad
        bad += bool(r["violations"])
        return bad >= 2
    for idx, _task, status, r in driver.forkpool(
            tasks, run_session, nproc=nproc, timeout=1500.0,
            stop_when=stop_when, deadline=deadline):
        if status == "ok":
            results.append(r)
            trouble += r["harness"]
        elif status != "skipped":
            trouble.append(f"session {idx}: {status}: {str(r)[-1200:]}")
    results.sort(key=lambda r: r["session"])
    fps = set()
    for r in results:
        fps |= set(r["fps"])
    reported = []
    seen_classes = set()
    for r in results:
        for v in r["violations"]:
            if v["class"] in seen_classes or len(reported) >= 3:
                continue
            seen_classes.add(v["class"])
            entry, confirmed = minimise(v, 90.0 if tier == "quick" else 240.0)
            doc = {"property": PROP, "seed": seed, "session": r["session"],
                   "class": v["class"], "field": v["field"], "diff": v["diff"],
                   "recipe_entry": entry, "a": v["a"], "b": v["b"],
                   "session_recipes": None, "world": bool(v.get("world")),
                   "configs": v.get("configs")}
            if not confirmed:
                # needs the allocation history: ship the session's recipes
                _cfgs, recipes, _plans = _session_plan(seed, r["session"], conf)
                doc["recipe_entry"] = v["recipe"]
                doc["session_recipes"] = recipes
            path = driver.write_replay(PROP, f"{seed}-{r['session']}-"
                                       f"{v['recipe']['id']}", doc)
            ok, out = driver.confirm_replay(PROP, path, timeout=1200)
            if ok:
                reported.append((v, path))
            else:
                trouble.append(f"difference {v['class']} in session "
                               f"{r['session']} did not reproduce: {out[-400:]}")
    for v, path in reported:
        print(f"[{PROP}] {v['class']}: recipe {v['recipe']['id']} field "
              f"{v['field']} differs between interpreter {v['a']['config']} "
              f"(production {v['a']['production']}) and {v['b']['config']} "
              f"(production {v['b']['production']}):")
        for ln in v["diff"][:6]:
            print("    " + ln)
        print(f"VIOLATION property={PROP} replay={path}", flush=True)
    wall = timer()
    nrec = sum(r["records"] for r in results)
    nontrivial = set()
    for r in results:
        nontrivial |= r["nontrivial"]
    errors = collections.Counter()
    for r in results:
        errors.update(r["errors"])
    coverage = {
        "evaluations": nrec,
        "distinct_nontrivial": len(nontrivial),
        "rule": "one evaluation = one record produced by one interpreter for "
                "one recipe (every recipe is produced twice per interpreter, at "
                "different points of its allocation history, by every "
                "interpreter of the session); distinct non-trivial = distinct "
                "recipes for which code generation / partitioning succeeded "
                "and whose records were compared across all interpreters",
        "samples": [s for r in results for s in r["samples"]][:2],
        "sessions": len(results),
        "interpreters_launched": sum(len(r["configs"]) for r in results),
        "interpreter_configs": [c for r in results for c in r["configs"]][:24],
        "distinct_fingerprints": len(fps),
        "record_comparisons": sum(r["compared"] for r in results),
        "junk_history_ops": sum(r["junk_ops"] for r in results),
        "one_interpreter_per_rank_worlds_compared":
            sum(r.get("world_runs", 0) for r in results),
        "set_order_probes": sum(r["probes"] for r in results),
        "set_order_probes_that_differed_between_interpreters":
            sum(r["probe_diff"] for r in results),
        "records_per_hour": round(nrec / wall * 3600) if wall else 0,
        "error_records": dict(errors.most_common(12)),
        "components": {
            "real": ["srecipe/mrecipe builders calling the public pytato API",
                     "pytato.generate_loopy", "loopy.generate_code_v2 (OpenCL "
                     "and C targets)", "generate_numpy_like (Python target)",
                     "find_distributed_partition", "number_distributed_tags",
                     "generate_code_for_partition (1 multi-rank recipe in 6)"],
            "stub": ["mpi4py (SimMPI, same seed in every interpreter)",
                     "jax.numpy replaced by numpy as the numpy-like module",
                     "no kernel is executed"]},
        "harness_trouble": trouble[:8],
        "exhaustive": False,
    }
    driver.write_evidence(PROP, tier, seed, "exploration", coverage, wall,
                          len(reported), ASSUMPTIONS)
    print(f"[{PROP}] sessions={len(results)} records={nrec} "
          f"distinct_nontrivial={len(nontrivial)} fingerprints={len(fps)} "
          f"set-order probes differing "
          f"{coverage['set_order_probes_that_differed_between_interpreters']}/"
          f"{coverage['set_order_probes']} violations={len(reported)} "
          f"wall={wall:.1f}s", flush=True)
    if reported:
        return 1
    if trouble or not results or len(fps) < 2:
        for t in trouble[:5]:
            print(f"[{PROP}] HARNESS-ERROR: {t}", file=sys.stderr)
        if len(fps) < 2:
            print(f"[{PROP}] HARNESS-ERROR: fleet too uniform ({len(fps)} "
                  "fingerprints)", file=sys.stderr)
        return 2
    return 0


def run_replay(path):
    driver.assert_repo_pytato()
    with open(path) as f:
        doc = json.load(f)
    again, (field, diff) = replay_doc(doc)
    if again:
        print(f"[{PROP}] replay: records differ again in field {field}")
        for ln in diff[:6]:
            print("    " + ln)
        print(f"VIOLATION property={PROP} replay={path}", flush=True)
        return 1
    print(f"[{PROP}] not reproduced")
    return 0

# vim: foldmethod=marker
