#!/bin/sh
# usage: tools_run_seeded.sh <seeded dir> <check id> [extra check args]
# applies the seeded patch to /repo, runs the check, undoes the patch.
d="$1"; shift; c="$1"; shift
cd /repo || exit 3
git diff --quiet || { echo "/repo has uncommitted changes"; exit 3; }
git apply "/verif/$d/patch.diff" || exit 3
cd /verif
VERIF_EVIDENCE_DIR=/tmp/seeded-evidence VERIF_REPLAY_DIR=/tmp/seeded-replays ./check "$c" --tier quick "$@"
rc=$?
git -C /repo checkout -- .
echo "exit=$rc"
