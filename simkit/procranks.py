"""Process actors: every rank of a multi-rank run lives in its own interpreter
(own PYTHONHASHSEED, heap, allocation history).  The orchestrator is the MPI
kernel for the collectives; it reads from exactly one chosen actor at a time, so
a run is still a function of the seed."""
from __future__ import annotations

import pickle
import random

from . import fleet, partcheck


class RankFailed(Exception):
    pass


def run(workers, recipe, rng: random.Random, faults=(), stop_after="tags",
        shuffle=True):
    """returns dict(status per rank, partitions, numbered, next_tags, texts,
    local violations, stats)"""
    n = recipe["nranks"]
    ws = workers[:n]
    for r, w in enumerate(ws):
        w.send_cmd("rank_run", recipe=recipe, rank=r, faults=list(faults),
                   stop_after=stop_after)
    state = ["running"] * n
    pending: dict = {}
    results: dict = {}
    stats = {"collectives": 0, "folds": 0, "fold_orders_shuffled": 0}
    while any(s == "running" for s in state):
        order = [r for r in range(n) if state[r] == "running" and r not in pending]
        rng.shuffle(order)
        for r in order:
            msg = ws[r].read_msg()
            if msg[0] == "coll":
                pending[r] = msg
            elif msg[0] == "ok":
                if isinstance(msg[1], dict) and "raised" in msg[1]:
                    state[r] = "raised"
                else:
                    state[r] = "returned"
                results[r] = msg[1]
            elif msg[0] == "exc":
                state[r] = "raised"
                results[r] = msg[1]
            else:
                raise fleet.WorkerError(f"unexpected {msg[0]}")
        running = [r for r in range(n) if state[r] == "running"]
        if not running:
            break
        if len(pending) < len(running):
            continue
        if len(running) < n:
            # somebody left: the others wait forever
            for r in running:
                ws[r].write_msg(("abort",))
                ws[r].read_msg()
                state[r] = "blocked"
            break
        names = sorted({(pending[r][1], pending[r][3]) for r in running})
        if len(names) != 1:
            for r in running:
                ws[r].write_msg(("abort",))
                ws[r].read_msg()
                state[r] = "collective-mismatch"
            break
        name, root = names[0]
        stats["collectives"] += 1
        blobs = [pending[r][2] for r in range(n)]
        res = {}
        if name == "bcast":
            for r in range(n):
                res[r] = blobs[root]
        elif name == "gather":
            objs = [pickle.loads(b) for b in blobs]
            for r in range(n):
                res[r] = pickle.dumps(objs) if r == root else None
        elif name == "allgather":
            objs = [pickle.loads(b) for b in blobs]
            for r in range(n):
                res[r] = pickle.dumps(objs)
        elif name == "barrier":
            for r in range(n):
                res[r] = None
        elif name == "allreduce":
            order = list(range(n))
            commute = pending[0][4] and shuffle
            if commute:
                rng.shuffle(order)
                if order != sorted(order):
                    stats["fold_orders_shuffled"] += 1
            seq = [blobs[q] for q in order]
            while len(seq) > 1:
                j = rng.randrange(len(seq) - 1) if commute else 0
                folder = rng.randrange(n)      # any rank has the op
                ws[folder].write_msg(("fold", seq[j], seq[j + 1]))
                kind, blob = ws[folder].read_msg()
                assert kind == "folded", kind
                stats["folds"] += 1
                seq[j:j + 2] = [blob]
            for r in range(n):
                res[r] = seq[0]
        else:
            raise fleet.WorkerError(f"collective {name} not modelled")
        pending = {}
        for r in range(n):
            ws[r].write_msg(("coll-result", res[r]))
    return state, results, stats


def evaluate(recipe, state, results):
    """C09 invariants on what the rank interpreters returned"""
    n = recipe["nranks"]
    v = []
    for r in range(n):
        if state[r] != "returned":
            v.append({"class": f"rank-{state[r]}", "rank": r,
                      "detail": str(results.get(r))[-400:]})
    if v:
        return v
    parts = [pickle.loads(results[r]["partition"]) for r in range(n)]
    nums = [pickle.loads(results[r]["numbered"]) for r in range(n)]
    for r in range(n):
        v += results[r]["local_violations"]
    v += partcheck.check_global(parts)
    v += partcheck.check_tags(parts, nums,
                              [results[r]["next_tag"] for r in range(n)], 4242)
    return v
