"""Process actors for the FULL pipeline (C08): every rank runs
find_distributed_partition ... execute_distributed_partition in its own child
interpreter; in the orchestrator a proxy thread per rank plays that rank inside
the ordinary SimMPI kernel, translating the requests it reads from the rank's
pipe into kernel calls.  All scheduling decisions stay with the kernel's
seeded chooser; pickles cross from rank to rank untouched."""
from __future__ import annotations

import pickle

import numpy as np

from . import fleet, simmpi


class RemoteRankError(Exception):
    """an exception raised by the code under test in a rank interpreter"""


def _remote_exc(info):
    cls = type(info["type"], (RemoteRankError,), {})
    e = cls(info["msg"])
    e.remote = info
    return e


class _RawOp:
    def __init__(self, worker, commute):
        self.worker = worker
        self.commute = commute

    def fold_raw(self, a, b):
        # the rank's interpreter is waiting in its collective and serves folds
        self.worker.write_msg(("fold", a, b))
        kind, blob = self.worker.read_msg()
        assert kind == "folded", kind
        return blob


def make_proxy(worker, sim, recipe, rank, iterations, collected):
    def proxy(comm):
        worker.send_cmd("rank_exec", recipe=recipe, rank=rank,
                        iterations=iterations,
                        f_order_inputs=bool(sim.cfg.get("f_order_inputs")),
                        extra_inputs=bool(sim.cfg.get("extra_inputs")))
        reqs: dict = {}
        bufs: dict = {}
        try:
            while True:
                msg = worker.read_msg()
                kind = msg[0]
                if kind == "coll":
                    _k, name, blob, root, commute = msg
                    op = _RawOp(worker, commute) if name == "allreduce" else None
                    res = sim._collective(rank, name, blob, root, op, raw=True)
                    if isinstance(res, tuple):
                        worker.write_msg(("coll-result-list", res[1]))
                    else:
                        worker.write_msg(("coll-result", res))
                elif kind == "isend":
                    _k, data, dest, tag = msg
                    arr = np.frombuffer(data, dtype=np.uint8).copy()
                    req = comm.Isend(arr, dest, tag)
                    reqs[req.id] = req
                    worker.write_msg(("req", req.id))
                elif kind == "irecv":
                    _k, nbytes, src, tag = msg
                    buf = np.empty(nbytes, dtype=np.uint8)
                    req = comm.Irecv(buf, src, tag)
                    reqs[req.id] = req
                    bufs[req.id] = buf
                    worker.write_msg(("req", req.id))
                elif kind == "waitsome":
                    ids = msg[1]
                    if len(msg) > 2 and msg[2]:
                        one = simmpi.Request.Waitany(
                            [reqs.get(i, simmpi.REQUEST_NULL) for i in ids])
                        res = None if one < 0 else [one]
                    else:
                        res = simmpi.Request.Waitsome(
                            [reqs.get(i, simmpi.REQUEST_NULL) for i in ids])
                    data = {}
                    if res:
                        for i in res:
                            if ids[i] in bufs:
                                data[ids[i]] = bufs[ids[i]].tobytes()
                    worker.write_msg(("waitsome-ret", res, data))
                elif kind == "wait":
                    rid = msg[1]
                    reqs[rid].Wait()
                    worker.write_msg(("wait-ret", bufs[rid].tobytes()
                                      if rid in bufs else None))
                elif kind == "ok":
                    out = msg[1]
                    if isinstance(out, dict) and "raised" in out:
                        collected[rank] = out
                        raise _remote_exc(out["raised"])
                    collected[rank] = out
                    return out
                elif kind == "exc":
                    raise fleet.WorkerError(msg[1])
                else:
                    raise fleet.WorkerError(f"unexpected request {kind}")
        except RemoteRankError:
            raise
        except BaseException:
            # the simulation is being torn down (deadlock, peer failure) or the
            # kernel refused the request: unwind the rank interpreter too
            try:
                worker.write_msg(("abort",))
                while True:
                    m = worker.read_msg()
                    if m[0] in ("ok", "exc"):
                        break
                    worker.write_msg(("abort",))
            except Exception:  # noqa: BLE001
                pass
            raise
    return proxy


def run_case(workers, recipe, cfg, chooser, iterations=1, max_steps=100000):
    """same contract as distrun.run_case (as far as oracle_c08 needs it)"""
    import hashlib
    from . import mrecipe
    n = recipe["nranks"]
    npvals = mrecipe.evaluate_recipe(recipe)
    sim = simmpi.Sim(n, chooser, cfg, max_steps=max_steps)
    collected: dict = {}
    outcome = sim.run([make_proxy(workers[r], sim, recipe, r, iterations,
                                  collected) for r in range(n)])
    status = sim.final_status()
    violations = []
    record = []
    for r in range(n):
        out = collected.get(r) or {}
        record.append({"outs": out.get("outs", []), "stage": out.get("stage")})
        for v in out.get("violations", []):
            violations.append(v)
    for kv in sim.violations:
        violations.append({"class": kv["kind"], "rank": None,
                           "detail": kv["detail"]})
    import collections
    return {"outcome": outcome, "status": status, "violations": violations,
            "stats": dict(sim.stats), "record": record, "dags": None,
            "npvals": npvals, "sim": sim,
            "monitor": {"codegen_own_failures": 0,
                        "shadow": collections.Counter()},
            "nparts": [collected.get(r, {}).get("nparts") for r in range(n)],
            "log_digest": hashlib.sha256(repr(sim.log).encode()).hexdigest()[:16]}
