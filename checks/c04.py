"""C04 -- equality and hashing are a sound structural congruence (history /
cross-process facet decided by simulation over the interpreter fleet; the
congruence oracle is evaluated after the steps of every history)."""
from __future__ import annotations

from checks import histmain

PROP = "C04"

TIERS = {
    "quick": {"sessions": 10, "workers": [2, 3], "histories": 70,
              "budget_s": None},
    "thorough": {"sessions": 600, "workers": [2, 3, 4], "histories": 60,
                 "budget_s": 15 * 60},
}

ASSUMPTIONS = [
    "oracle for 'same structure': the reflective walker's canonical form "
    "(every dataclass field except non_equality_tags; mappings and sets "
    "order-free; a DataWrapper equals only itself, by design)",
    "a single-field mutation is made reflectively (copy + setattr on one "
    "dataclass field, ancestors re-created), so mutated graphs need not be "
    "constructible through the public API; equality is still required to "
    "see the difference",
    "interpreters: setarch -R, distinct PYTHONHASHSEED and heap prelude; only "
    "pickle bytes cross; a crash kills the interpreter and restarts it under "
    "another hash seed",
]


def run_check(tier, budget_s=None):
    return histmain.run_check(PROP, TIERS, ASSUMPTIONS, tier, budget_s)


def run_replay(path):
    return histmain.run_replay(PROP, path)
