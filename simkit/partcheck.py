"""Partition invariants (property C09), evaluated by the reflective walker on
what each rank returned -- never by verify_distributed_partition, which is code
under test.

Every function returns a list of violation dicts
``{"class": ..., "rank": r, "detail": ...}`` (empty: invariant holds).
"""
from __future__ import annotations

from .walker import Canon, comm_nodes, free_input_names


def _v(cls, rank, detail):
    return {"class": cls, "rank": rank, "detail": detail}


def tag_text(tag) -> str:
    return Canon().ref(tag)


def _earlier(parts):
    """pid -> set of pids that are transitively needed (strictly earlier)"""
    memo: dict = {}

    def rec(pid, stack=()):
        if pid in memo:
            return memo[pid]
        if pid in stack:
            return None
        acc = set()
        for q in sorted(parts[pid].needed_pids):
            if q not in parts:
                return None
            sub = rec(q, (*stack, pid))
            if sub is None:
                return None
            acc.add(q)
            acc |= sub
        memo[pid] = acc
        return acc
    return {pid: rec(pid) for pid in parts}


def check_local(rank, dag, partition):
    """invariants 1-3 of DESIGN section C09 on one rank's partition"""
    out = []
    parts = partition.parts
    n2o = partition.name_to_output

    for pid, part in parts.items():
        if part.pid != pid:
            out.append(_v("pid-key-mismatch", rank, f"{pid} vs {part.pid}"))

    # 1a. overall outputs
    want = sorted(dag._data.keys())
    got = sorted(partition.overall_output_names)
    if want != got:
        out.append(_v("overall-output-names", rank, f"want {want} got {got}"))
    # exactly-one producer
    producers: dict = {}
    for pid in parts:
        for name in sorted(parts[pid].output_names):
            producers.setdefault(name, []).append(pid)
    for name in sorted(producers):
        if len(producers[name]) != 1:
            out.append(_v("name-produced-by-several-parts", rank,
                          f"{name}: {producers[name]}"))
    for name in got:
        if name not in producers:
            out.append(_v("overall-output-not-produced", rank, name))
    if sorted(n2o.keys()) != sorted(producers):
        out.append(_v("name_to_output-vs-output_names", rank,
                      f"{sorted(n2o.keys())} vs {sorted(producers)}"))
    # 1b. sent names are outputs of the sending part
    for pid, part in parts.items():
        for name in part.name_to_send_nodes:
            if name not in part.output_names:
                out.append(_v("sent-name-not-part-output", rank,
                              f"part {pid}: {name}"))
    # 1c. received names are never part outputs, and are received once
    recv_owner: dict = {}
    for pid, part in parts.items():
        for name in part.name_to_recv_node:
            if name in producers:
                out.append(_v("received-name-is-part-output", rank,
                              f"{name} received by part {pid}, produced by "
                              f"{producers[name]}"))
            if name in recv_owner:
                out.append(_v("name-received-twice", rank, name))
            recv_owner[name] = pid

    # 2. what a part reads
    earlier = _earlier(parts)
    user_inputs = set(free_input_names(dag))
    for pid, part in parts.items():
        if earlier[pid] is None:
            out.append(_v("part-order-cyclic", rank, f"part {pid}"))
            continue
        exprs = [n2o[name] for name in sorted(part.output_names) if name in n2o]
        for name, sends in part.name_to_send_nodes.items():
            for s in sends:
                exprs.append(s.data)
        free = set()
        for e in exprs:
            free |= set(free_input_names(e))
        declared = set(part.user_input_names) | set(part.partition_input_names)
        if not free <= declared:
            out.append(_v("part-reads-undeclared-name", rank,
                          f"part {pid}: {sorted(free - declared)}"))
        for name in sorted(part.user_input_names):
            if name not in user_inputs:
                out.append(_v("user-input-unknown", rank,
                              f"part {pid}: {name}"))
            if name in producers or name in recv_owner:
                out.append(_v("user-input-shadows-partition-name", rank,
                              f"part {pid}: {name}"))
        for name in sorted(part.partition_input_names):
            ok = False
            if name in recv_owner and (recv_owner[name] == pid
                                       or recv_owner[name] in earlier[pid]):
                ok = True
            if name in producers and any(q in earlier[pid]
                                         for q in producers[name]):
                ok = True
            if not ok:
                out.append(_v("part-input-not-available", rank,
                              f"part {pid} reads {name}: received by "
                              f"{recv_owner.get(name)}, produced by "
                              f"{producers.get(name)}, earlier parts "
                              f"{sorted(earlier[pid])}"))

    # 3. no communication nodes inside parts; every original comm node in
    #    exactly one part
    for name in sorted(n2o):
        recvs, sends, holders = comm_nodes(n2o[name])
        if recvs or sends or holders:
            out.append(_v("comm-node-inside-part", rank,
                          f"{name}: {len(recvs)} recv, {len(holders)} holders"))
    for pid, part in parts.items():
        for name, ss in part.name_to_send_nodes.items():
            for s in ss:
                recvs, sends, holders = comm_nodes(s.data)
                if recvs or sends or holders:
                    out.append(_v("comm-node-inside-part", rank,
                                  f"send data of {name}"))
                if name in n2o and Canon("content").text(s.data) \
                        != Canon("content").text(n2o[name]):
                    out.append(_v("send-data-differs-from-named-output", rank,
                                  f"part {pid}: {name}"))
    o_recvs, o_sends, _ = comm_nodes(dag)
    want_r = sorted((r.src_rank, tag_text(r.comm_tag), str(r.shape), str(r.dtype))
                    for r in o_recvs)
    got_r = sorted((r.src_rank, tag_text(r.comm_tag), str(r.shape), str(r.dtype))
                   for part in parts.values()
                   for r in part.name_to_recv_node.values())
    if want_r != got_r:
        out.append(_v("receives-not-partitioned-exactly-once", rank,
                      f"graph {want_r} parts {got_r}"))
    want_s = sorted((s.dest_rank, tag_text(s.comm_tag), str(s.data.shape),
                     str(s.data.dtype)) for s in o_sends)
    got_s = sorted((s.dest_rank, tag_text(s.comm_tag), str(s.data.shape),
                    str(s.data.dtype))
                   for part in parts.values()
                   for ss in part.name_to_send_nodes.values() for s in ss)
    if want_s != got_s:
        out.append(_v("sends-not-partitioned-exactly-once", rank,
                      f"graph {want_s} parts {got_s}"))
    return out


def _comm_endpoints(partitions):
    """(sends, recvs): comm id (src, dst, tagtext) -> [(rank, pid)]"""
    sends: dict = {}
    recvs: dict = {}
    for rank, partition in enumerate(partitions):
        for pid, part in partition.parts.items():
            for r in part.name_to_recv_node.values():
                recvs.setdefault((r.src_rank, rank, tag_text(r.comm_tag)),
                                 []).append((rank, pid))
            for ss in part.name_to_send_nodes.values():
                for s in ss:
                    sends.setdefault((rank, s.dest_rank, tag_text(s.comm_tag)),
                                     []).append((rank, pid))
    return sends, recvs


def check_global(partitions):
    """invariants 4 and 5: acyclic global part graph; one consistent global
    order of communication rounds"""
    out = []
    sends, recvs = _comm_endpoints(partitions)
    for cid in sorted(set(sends) | set(recvs)):
        if len(sends.get(cid, ())) != 1 or len(recvs.get(cid, ())) != 1:
            out.append(_v("message-endpoints-not-one-to-one", None,
                          f"{cid}: sends {sends.get(cid)} recvs {recvs.get(cid)}"))
    if out:
        return out

    # 4. global part graph
    nodes = [(rank, pid) for rank, p in enumerate(partitions)
             for pid in p.parts]
    deps: dict = {nd: set() for nd in nodes}
    for rank, partition in enumerate(partitions):
        producers = {}
        recv_owner = {}
        for pid, part in partition.parts.items():
            for name in part.output_names:
                producers[name] = pid
            for name in part.name_to_recv_node:
                recv_owner[name] = pid
        for pid, part in partition.parts.items():
            for q in part.needed_pids:
                deps[(rank, pid)].add((rank, q))
            for name in part.partition_input_names:
                q = producers.get(name, recv_owner.get(name))
                if q is not None and q != pid:
                    deps[(rank, pid)].add((rank, q))
    for cid in sorted(sends):
        deps[recvs[cid][0]].add(sends[cid][0])
    state: dict = {}

    def dfs(nd):
        # iterative colouring DFS
        stack = [(nd, iter(sorted(deps[nd], key=repr)))]
        state[nd] = 1
        while stack:
            cur, it = stack[-1]
            nxt = next(it, None)
            if nxt is None:
                state[cur] = 2
                stack.pop()
                continue
            if nxt not in deps:
                continue
            if state.get(nxt) == 1:
                return (cur, nxt)
            if state.get(nxt) is None:
                state[nxt] = 1
                stack.append((nxt, iter(sorted(deps[nxt], key=repr))))
        return None

    for nd in nodes:
        if state.get(nd) is None:
            cyc = dfs(nd)
            if cyc is not None:
                out.append(_v("global-part-graph-cyclic", None,
                              f"back edge {cyc[0]} -> {cyc[1]}"))
                break

    # 5. consistent global rounds: difference constraints, Bellman-Ford
    # variables: one per (rank, pid, "r"|"s") set, merged through messages
    parent: dict = {}

    def find(x):
        while parent.setdefault(x, x) != x:
            parent[x] = parent[parent[x]]
            x = parent[x]
        return x

    def union(a, b):
        ra, rb = find(a), find(b)
        if ra != rb:
            parent[max(ra, rb, key=repr)] = min(ra, rb, key=repr)

    for cid in sorted(sends):
        (sr, sp), (rr, rp) = sends[cid][0], recvs[cid][0]
        union(("msg",) + cid, (sr, sp, "s"))
        union(("msg",) + cid, (rr, rp, "r"))
    edges = []     # (u, v, w): label(v) >= label(u) + w
    for rank, partition in enumerate(partitions):
        # part order: by chain (needed_pids); pids of this implementation are
        # 0..n-1 but only the dependency relation is used here
        earlier = _earlier(partition.parts)
        if any(e is None for e in earlier.values()):
            continue
        order = sorted(partition.parts, key=lambda pid: (len(earlier[pid]),
                                                          repr(pid)))
        seq = []
        for pid in order:
            part = partition.parts[pid]
            if part.name_to_recv_node:
                seq.append((find((rank, pid, "r")), pid, "r"))
            if part.name_to_send_nodes:
                seq.append((find((rank, pid, "s")), pid, "s"))
        for (u, pu, ku), (v, pv, kv) in zip(seq, seq[1:]):
            strict = 1 if (pu == pv and ku == "r" and kv == "s") else 0
            edges.append((u, v, strict))
    nodes5 = sorted({e[0] for e in edges} | {e[1] for e in edges}, key=repr)
    dist = {x: 0 for x in nodes5}
    changed = True
    rounds = 0
    while changed and rounds <= len(nodes5) + 1:
        changed = False
        rounds += 1
        for u, v, w in edges:
            if dist[u] + w > dist[v]:
                dist[v] = dist[u] + w
                changed = True
    if changed:
        out.append(_v("no-consistent-global-round-order", None,
                      f"{len(nodes5)} round variables, constraints "
                      "have a positive cycle"))
    return out


def check_tags(partitions, numbered, next_tags, base_tag):
    """invariant 7: number_distributed_tags"""
    out = []
    if len({int(t) for t in next_tags}) != 1:
        out.append(_v("next-tag-differs", None, str(list(next_tags))))
    sym2int_all: dict = {}
    send_int: dict = {}
    recv_int: dict = {}
    for rank, (sym, num) in enumerate(zip(partitions, numbered)):
        if list(sym.parts) != list(num.parts):
            out.append(_v("numbering-changed-parts", rank,
                          f"{list(sym.parts)} vs {list(num.parts)}"))
            continue
        if num.name_to_output is not sym.name_to_output and \
                sorted(num.name_to_output) != sorted(sym.name_to_output):
            out.append(_v("numbering-changed-outputs", rank, ""))
        if tuple(num.overall_output_names) != tuple(sym.overall_output_names):
            out.append(_v("numbering-changed-output-names", rank, ""))
        for pid in sym.parts:
            ps, pn = sym.parts[pid], num.parts[pid]
            if sorted(ps.name_to_recv_node) != sorted(pn.name_to_recv_node) or \
                    sorted(ps.name_to_send_nodes) != sorted(pn.name_to_send_nodes):
                out.append(_v("numbering-changed-comm-names", rank, f"part {pid}"))
                continue
            pairs = []
            for name in ps.name_to_recv_node:
                a, b = ps.name_to_recv_node[name], pn.name_to_recv_node[name]
                if (a.src_rank, a.shape, a.dtype) != (b.src_rank, b.shape, b.dtype):
                    out.append(_v("numbering-changed-recv", rank, name))
                pairs.append(("r", a.src_rank, rank, a.comm_tag, b.comm_tag))
            for name in ps.name_to_send_nodes:
                sa, sb = ps.name_to_send_nodes[name], pn.name_to_send_nodes[name]
                if len(sa) != len(sb):
                    out.append(_v("numbering-changed-sends", rank, name))
                    continue
                for a, b in zip(sa, sb):
                    if a.dest_rank != b.dest_rank or a.data is not b.data and \
                            Canon("content").text(a.data) \
                            != Canon("content").text(b.data):
                        out.append(_v("numbering-changed-send", rank, name))
                    pairs.append(("s", rank, a.dest_rank, a.comm_tag, b.comm_tag))
            for kind, src, dst, symt, intt in pairs:
                if not isinstance(intt, int) or isinstance(intt, bool):
                    out.append(_v("tag-not-int", rank, f"{tag_text(symt)} -> {intt!r}"))
                    continue
                if intt < base_tag or intt >= int(next_tags[rank]):
                    out.append(_v("tag-out-of-range", rank,
                                  f"{intt} not in [{base_tag}, {next_tags[rank]})"))
                key = tag_text(symt)
                if sym2int_all.setdefault(key, intt) != intt:
                    out.append(_v("symbolic-tag-numbered-inconsistently", rank,
                                  f"{key}: {sym2int_all[key]} and {intt}"))
                (send_int if kind == "s" else recv_int).setdefault(
                    (src, dst, key), []).append(intt)
    for cid in sorted(set(send_int) | set(recv_int)):
        s, r = send_int.get(cid), recv_int.get(cid)
        if s is None or r is None or len(s) != 1 or len(r) != 1:
            continue        # endpoint mismatch is reported by check_global
        if s[0] != r[0]:
            out.append(_v("message-ends-numbered-differently", None,
                          f"{cid}: send {s[0]} recv {r[0]}"))
    by_pair: dict = {}
    for (src, dst, key), ints in sorted(send_int.items()):
        by_pair.setdefault((src, dst), []).extend(ints)
    for pair in sorted(by_pair):
        if len(set(by_pair[pair])) != len(by_pair[pair]):
            out.append(_v("distinct-messages-share-int-tag", None,
                          f"{pair}: {sorted(by_pair[pair])}"))
    return out
