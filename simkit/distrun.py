"""One simulated multi-rank execution of the real pytato distributed pipeline on
SimMPI, with the C08 / C09 / C10 oracles."""
from __future__ import annotations

import hashlib
import random

import numpy as np

from . import mrecipe, partcheck, simmpi
from .refeval import CommNodeInPart, RefEvaluator, UnboundInput

simmpi.install_fake_mpi4py()

import pytato as pt  # noqa: E402
import pyopencl.array as _cla  # noqa: E402


def _to_device(queue, buf, allocator=None, **kw):
    return np.array(buf, copy=True)


_cla.to_device = _to_device

BASE_TAG = 4242


class HarnessDisagreement(Exception):
    """the harness's two independent oracles disagree: nothing is reported as
    a violation of pytato"""


def _is_poison(a) -> bool:
    a = np.asarray(a)
    if a.size == 0 or a.dtype.itemsize == 0:
        return False
    b = np.ascontiguousarray(a).reshape(-1).view(np.uint8)
    return bool(np.all(b == simmpi.POISON))


class StubProgram:
    """Stand-in for the compiled BoundProgram of one part: evaluates the part's
    own output expressions with RefEval."""

    def __init__(self, rank, part, partition, monitor, real=None):
        self.rank = rank
        self.part = part
        self.partition = partition
        self.monitor = monitor
        self.real = real      # the real BoundProgram of this part (shadow run)

    def __call__(self, queue, allocator=None, **kwargs):
        part = self.part
        mon = self.monitor
        mon["part_execs"].append((self.rank, part.pid))
        declared = sorted(part.all_input_names())
        if sorted(kwargs) != declared:
            mon["violations"].append({
                "class": "part-called-with-wrong-inputs", "rank": self.rank,
                "detail": f"part {part.pid}: got {sorted(kwargs)} declared {declared}"})
        for k in sorted(kwargs):
            if _is_poison(kwargs[k]):
                mon["violations"].append({
                    "class": "receive-buffer-read-before-completion",
                    "rank": self.rank,
                    "detail": f"part {part.pid} input {k} still holds the "
                              "poison pattern"})
        ev = RefEvaluator(kwargs, forbid_comm=True)
        res = {}
        for name in sorted(part.output_names):
            # (a fresh C-ordered array, as a compiled kernel returns)
            res[name] = np.array(ev(self.partition.name_to_output[name]),
                                 copy=True, order="C")
        if self.real is not None:
            # shadow: the REAL generated kernel of this part, compiled with gcc
            # through loopy's C target, must agree with the stub.  Evidence
            # only -- a disagreement is code generation's business (C01), so it
            # is counted, never reported as a violation of C08.
            from . import realexec
            sh = mon["shadow"]
            try:
                got = realexec.run_bound_program(self.real, kwargs)
            except Exception as e:  # noqa: BLE001
                sh[f"could_not_run:{type(e).__name__}"] += 1
            else:
                ok = all(n in got and got[n].shape == res[n].shape
                         and np.array_equal(got[n], res[n]) for n in res)
                sh["agree" if ok else "DISAGREE"] += 1
        return None, res


def shape_inputs(inputs, f_order=False, extra=False):
    """what the USER hands to execute_distributed_partition: optionally every
    array of two or more dimensions in Fortran order, optionally an entry
    no part asks for"""
    out = dict(inputs)
    if f_order:
        out = {k: (np.asfortranarray(v) if np.ndim(v) >= 2 else v)
               for k, v in out.items()}
    if extra:
        out["unused_user_array"] = np.arange(3.0)
    return out


def _exc_class(e) -> str:
    return type(e).__name__


def run_case(recipe, cfg, chooser, *, real_codegen=False, shadow_exec=False,
             iterations=1,
             stop_after="execute", faults=(), transport_fault=None,
             max_steps=100000, cross_check=False, keep_partitions=True,
             tamper=None):
    """Run the real pipeline for *recipe* under the simulator.  Returns a dict:
    outcome, status (per rank), violations, stats, log_digest, partitions ..."""
    n = recipe["nranks"]
    npvals = mrecipe.evaluate_recipe(recipe)
    dags = [mrecipe.build_rank(recipe, r, npvals, faults) for r in range(n)]
    inputs = [shape_inputs(mrecipe.rank_inputs(recipe, r),
                           f_order=cfg.get("f_order_inputs", False),
                           extra=cfg.get("extra_inputs", False))
              for r in range(n)]
    for f in faults:
        if f["kind"] == "drop-recv":
            c = recipe["comms"][f["comm"]]
            nv = npvals[c["src_val"]]
            inputs[c["dst"]][f"dropped{f['comm']}"] = np.zeros(nv.shape, nv.dtype)
    import collections
    monitor = {"violations": [], "part_execs": [], "codegen_own_failures": 0,
               "shadow": collections.Counter()}
    record: list = [dict() for _ in range(n)]

    def rank_fn(r):
        def fn(comm):
            rec = record[r]
            part = pt.find_distributed_partition(comm, dags[r])
            if tamper is not None and tamper["rank"] == r:
                from . import ptamper
                part2, desc = ptamper.apply(part, tamper)
                if part2 is not None:
                    rec["untampered"] = part
                    rec["tampered"] = desc
                    part = part2
            rec["partition"] = part
            rec["stage"] = "partitioned"
            pt.verify_distributed_partition(comm, part)
            rec["stage"] = "verified"
            if stop_after == "verify":
                return rec
            npart, next_tag = pt.number_distributed_tags(comm, part,
                                                         base_tag=BASE_TAG)
            rec["numbered"] = npart
            rec["next_tag"] = next_tag
            rec["stage"] = "numbered"
            if stop_after == "tags":
                return rec
            real = None
            if real_codegen:
                from pytato.distributed.execute import generate_code_for_partition
                try:
                    real = generate_code_for_partition(npart)
                except Exception as exc:
                    # Differential control: does the communication-free version
                    # of this rank's graph compile?  If it fails too, this is
                    # code generation's own problem (C01/C02 territory), not a
                    # consequence of partitioning.
                    try:
                        pt.generate_loopy(mrecipe.build_rank(
                            recipe, r, npvals, localise=True))
                    except Exception as exc2:  # noqa: BLE001
                        rec["codegen_own_failure"] = \
                            f"{type(exc).__name__} / control {type(exc2).__name__}"
                        monitor["codegen_own_failures"] += 1
                    else:
                        raise exc
                else:
                    if sorted(real, key=repr) != sorted(npart.parts, key=repr):
                        monitor["violations"].append({
                            "class": "codegen-parts-mismatch", "rank": r,
                            "detail": f"{sorted(real, key=repr)}"})
                    else:
                        # the program registered for a part must BE that part's
                        # program: its outputs are the part's output names and
                        # it reads nothing the executor will not pass
                        for pid, p in npart.parts.items():
                            knl = real[pid].program.default_entrypoint
                            outs = sorted(a.name for a in knl.args
                                          if getattr(a, "is_output", False))
                            ins = sorted(a.name for a in knl.args
                                         if not getattr(a, "is_output", False))
                            bound = set(real[pid].bound_arguments)
                            if outs != sorted(p.output_names) or not (
                                    set(ins) <= set(p.all_input_names()) | bound):
                                monitor["violations"].append({
                                    "class": "part-program-does-not-match-part",
                                    "rank": r,
                                    "detail": f"part {pid}: kernel outputs {outs} "
                                              f"inputs {ins}; part outputs "
                                              f"{sorted(p.output_names)} inputs "
                                              f"{sorted(p.all_input_names())}"})
                rec["real_codegen"] = True
            prgs = {pid: StubProgram(
                        r, p, npart, monitor,
                        real=(real.get(pid) if shadow_exec and real else None))
                    for pid, p in npart.parts.items()}
            rec["outs"] = []
            for _it in range(iterations):
                out = pt.execute_distributed_partition(
                    npart, prgs, None, comm, input_args=dict(inputs[r]))
                rec["outs"].append(out)
            rec["stage"] = "executed"
            return rec
        return fn

    sim = simmpi.Sim(n, chooser, cfg, max_steps=max_steps,
                     transport_fault=transport_fault)
    outcome = sim.run([rank_fn(r) for r in range(n)])
    status = sim.final_status()
    violations = list(monitor["violations"])
    for kv in sim.violations:
        violations.append({"class": kv["kind"], "rank": None,
                           "detail": kv["detail"]})
    res = {
        "outcome": outcome, "status": status, "violations": violations,
        "stats": dict(sim.stats), "record": record, "dags": dags,
        "npvals": npvals, "sim": sim, "monitor": monitor,
        "nparts": [len(rec["partition"].parts) if "partition" in rec else None
                   for rec in record],
    }
    res["log_digest"] = hashlib.sha256(
        repr(sim.log).encode()).hexdigest()[:16]

    if cross_check and not faults:
        _cross_check_oracles(recipe, dags, npvals, inputs)
    return res


def _cross_check_oracles(recipe, dags, npvals, inputs):
    """RefEval on the unpartitioned global graph must agree with the
    recipe-level NumPy evaluation; if not, the harness is wrong (or pytato's
    array constructors are: that is C02/C03, not a distributed property)."""
    n = recipe["nranks"]
    from .walker import comm_nodes
    sends: list = [dict() for _ in range(n)]
    for r in range(n):
        _recvs, ss, _h = comm_nodes(dags[r])
        for s in ss:
            sends[r][(s.dest_rank, partcheck.tag_text(s.comm_tag))] = s
    evs: list = [None] * n

    def resolver(r):
        def resolve(recv):
            s = sends[recv.src_rank][(r, partcheck.tag_text(recv.comm_tag))]
            return evs[recv.src_rank](s.data)
        return resolve
    for r in range(n):
        evs[r] = RefEvaluator(inputs[r], resolver(r))
    exp = mrecipe.expected_outputs(recipe, npvals)
    for r in range(n):
        got = evs[r](dags[r])
        for k in sorted(exp[r]):
            a, b = np.asarray(got[k]), np.asarray(exp[r][k])
            if a.shape != b.shape or a.dtype != b.dtype or not np.array_equal(a, b):
                raise HarnessDisagreement(
                    f"rank {r} output {k}: RefEval on the unpartitioned graph "
                    f"gives {a!r}, recipe-level NumPy gives {b!r}")


# {{{ oracles

def liveness_bound(recipe, iterations):
    _live, livec = mrecipe.live_sets(recipe)
    n = recipe["nranks"]
    m = len(livec)
    return 64 + 40 * n + iterations * (16 * n + 12 * m + 8 * n * (m + 1))


def oracle_c08(recipe, res, iterations):
    """faithful + terminating + exactly-once (valid recipes only)"""
    v = list(res["violations"])
    outcome = res["outcome"]
    sim = res["sim"]
    if outcome == "deadlock":
        v.append({"class": "deadlock", "rank": None,
                  "detail": str([(r, sim.desc[r]) for r in range(sim.n)
                                 if sim.state[r] == "parked"])})
    elif outcome == "step-limit":
        v.append({"class": "step-limit", "rank": None, "detail": ""})
    for r, st in enumerate(res["status"]):
        if st[0] == "raised":
            e = st[1]
            cls = "livelock" if isinstance(e, simmpi.SimLivelock) else \
                f"rank-raised:{_exc_class(e)}"
            v.append({"class": cls, "rank": r,
                      "detail": f"{e!r}"[:400] + " @stage "
                      + str(res["record"][r].get("stage"))})
        elif st[0] == "blocked" and outcome == "blocked":
            v.append({"class": "blocked-behind-failed-rank", "rank": r,
                      "detail": str(st[1])})
    if v:
        return v
    exp = mrecipe.expected_outputs(recipe, res["npvals"])
    for r in range(recipe["nranks"]):
        outs = res["record"][r].get("outs", [])
        if len(outs) != iterations:
            v.append({"class": "missing-iteration", "rank": r, "detail": ""})
        for it, out in enumerate(outs):
            if sorted(out) != sorted(exp[r]):
                v.append({"class": "output-names", "rank": r,
                          "detail": f"iteration {it}: got {sorted(out)} "
                                    f"want {sorted(exp[r])}"})
                continue
            for k in sorted(exp[r]):
                a, b = np.asarray(out[k]), exp[r][k]
                if a.shape != b.shape or a.dtype != b.dtype \
                        or not np.array_equal(a, b):
                    v.append({"class": "wrong-value", "rank": r,
                              "detail": f"iteration {it} output {k}: got "
                                        f"{a.tolist()} ({a.dtype}{a.shape}) want "
                                        f"{b.tolist()} ({b.dtype}{b.shape})"})
    left = sim.leftover()
    for k in sorted(left):
        if left[k]:
            v.append({"class": f"leftover-{k}", "rank": None,
                      "detail": str(left[k])})
    _live, livec = mrecipe.live_sets(recipe)
    if sim.stats["delivers"] != iterations * len(livec):
        v.append({"class": "message-count", "rank": None,
                  "detail": f"{sim.stats['delivers']} delivered, "
                            f"{iterations * len(livec)} expected"})
    quiet = sim.stats["events"] - min(sim.last_perturb_step, sim.stats["events"])
    if quiet > liveness_bound(recipe, iterations):
        v.append({"class": "liveness-bound", "rank": None,
                  "detail": f"{quiet} events after the last perturbation"})
    return v


def oracle_c09(recipe, res, *, need_tags=True):
    """partition well-formedness and agreement (valid recipes only)"""
    v = []
    rec = res["record"]
    n = recipe["nranks"]
    for r, st in enumerate(res["status"]):
        if st[0] == "raised":
            v.append({"class": f"rank-raised:{_exc_class(st[1])}", "rank": r,
                      "detail": f"{st[1]!r}"[:400] + " @stage "
                      + str(rec[r].get("stage"))})
    for r in range(n):
        if "partition" in rec[r]:
            v += partcheck.check_local(r, res["dags"][r], rec[r]["partition"])
    if all("partition" in rec[r] for r in range(n)):
        v += partcheck.check_global([rec[r]["partition"] for r in range(n)])
    if need_tags and all("numbered" in rec[r] for r in range(n)):
        v += partcheck.check_tags(
            [rec[r]["partition"] for r in range(n)],
            [rec[r]["numbered"] for r in range(n)],
            [rec[r]["next_tag"] for r in range(n)], BASE_TAG)
    for kv in res["violations"]:
        if kv["class"] == "collective-mismatch":
            v.append(kv)
    if res["outcome"] in ("deadlock", "blocked", "step-limit") and not v:
        v.append({"class": res["outcome"], "rank": None,
                  "detail": str([(r, st[0], st[1] if len(st) > 1 else None)
                                 for r, st in enumerate(res["status"])])[:400]})
    return v

# }}}


def partition_shape_signature(res):
    """coarse structural signature of a run's partitions (for distinct counts)"""
    sig = []
    for rec in res["record"]:
        p = rec.get("partition")
        if p is None:
            sig.append(None)
            continue
        sig.append(tuple((len(part.name_to_recv_node),
                          sum(len(s) for s in part.name_to_send_nodes.values()),
                          len(part.output_names),
                          len(part.partition_input_names))
                         for part in p.parts.values()))
    return tuple(sig)

# vim: foldmethod=marker
