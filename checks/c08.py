"""C08 -- partitioned distributed execution terminates and is faithful in all
schedules.  Engine E1 (SimMPI)."""
from __future__ import annotations

import time

from simkit import distrun, driver, e1, mrecipe

PROP = "C08"

TIERS = {
    # streams, runs per stream, real generate_loopy every k-th run
    "quick": {"streams": 48, "runs": 450, "codegen_every": 9, "budget_s": None,
              "shadow_every": 450, "enum_tasks": 12, "enum_budget": 800,
              "enum_cap": 1500, "proc_groups": 3, "proc_runs": 900},
    "thorough": {"streams": 4000, "runs": 300, "codegen_every": 3,
                 "budget_s": 20 * 60, "shadow_every": 50, "enum_tasks": 1500,
                 "enum_budget": 6000, "enum_cap": 20000, "proc_groups": 150,
                 "proc_runs": 2500},
}


def evaluate(case, res):
    return distrun.oracle_c08(case["recipe"], res, case.get("iterations", 1))


from checks.known import match_known  # noqa: E402


# {{{ process actors: one interpreter per rank, full pipeline

def _proc_run(ws, case, decisions=None, rng=None):
    import random
    from simkit import procexec, simmpi
    ch = simmpi.Chooser(rng if rng is not None else random.Random(0),
                        replay=decisions)
    res = procexec.run_case(ws, case["recipe"], case["cfg"], ch,
                            iterations=case.get("iterations", 1))
    return res, ch.trace


def run_proc_group(task):
    import random
    from simkit import fleet, simmpi
    seed, (_kind, group), nruns = task[:3]
    known = driver.load_known_findings(PROP)
    acc = e1.Accum()
    t0 = time.monotonic()
    rng0 = random.Random(f"{seed}:{PROP}:proc:{group}")
    cfgs = fleet.draw_configs(rng0, 4, optimize_all=(group % 3 == 1))
    ws = [fleet.Worker.from_config(c, f"x{group}.{i}")
          for i, c in enumerate(cfgs)]
    acc.extra["process_actor_interpreters"] += len(ws)
    if cfgs[0].get("optimize"):
        acc.extra["process_actor_groups_running_python_-O"] += 1
    try:
        for i in range(nruns):
            rng = random.Random(f"{seed}:{PROP}:proc:{group}:{i}")
            recipe = mrecipe.gen_recipe(rng)
            if recipe["nranks"] < 2:
                continue
            case = {"recipe": recipe,
                    "cfg": simmpi.draw_config(rng, recipe["nranks"]),
                    "iterations": rng.choice([1, 1, 2]), "real_codegen": False,
                    "mode": "process", "configs": cfgs}
            res, trace = _proc_run(ws, case, None, rng)
            acc.note_run(case, res)
            acc.extra["process_actor_runs"] += 1
            v = evaluate(case, res)
            if v:
                rest, hits = match_known(case, v, known)
                for h in hits:
                    acc.known.append((h, f"proc{group}", i))
                if rest:
                    acc.violations.append({
                        "stream": f"proc{group}", "run": i, "case": case,
                        "decisions": trace, "classes": e1.classes_of(rest),
                        "details": rest[:8]})
                    # the interpreters may be out of step after a failed run
                    for w in ws:
                        w.kill()
                    ws = [fleet.Worker.from_config(c, f"x{group}.{j}")
                          for j, c in enumerate(cfgs)]
                    if len(acc.violations) >= 2:
                        break
    finally:
        for w in ws:
            w.close()
    acc.wall = time.monotonic() - t0
    return acc


def minimise_process(v, target, budget_s=120.0):
    import random
    from simkit import fleet, simmpi
    case, dec = v["case"], v["decisions"]
    cfgs = case["configs"]
    t0 = time.monotonic()

    def fresh():
        return [fleet.Worker.from_config(c, f"m{i}")
                for i, c in enumerate(cfgs)]

    def fails(cand, dec_hint):
        for kind, arg in (("replay", dec_hint), ("default", []),
                          ("seeded", 0), ("seeded", 1), ("seeded", 2)):
            c2 = cand
            ws = fresh()
            try:
                if kind == "seeded":
                    res, trace = _proc_run(ws, c2, None,
                                           random.Random(f"minimise:{arg}"))
                elif kind == "default":
                    c2 = dict(cand, cfg=dict(simmpi.DEFAULT_CONFIG))
                    res, trace = _proc_run(ws, c2, [])
                else:
                    res, trace = _proc_run(ws, c2, arg)
                vv = evaluate(c2, res)
            except Exception:  # noqa: BLE001
                vv, trace = [], []
            finally:
                for w in ws:
                    w.kill()
            if target in e1.classes_of(vv):
                return c2, trace
        return None
    best = (case, dec)
    progress = True
    while progress and time.monotonic() - t0 < budget_s:
        progress = False
        for rc in mrecipe.shrink_candidates(best[0]["recipe"]):
            if time.monotonic() - t0 > budget_s:
                break
            if rc["nranks"] < 2 or mrecipe.recipe_size(rc) >= \
                    mrecipe.recipe_size(best[0]["recipe"]):
                continue
            got = fails(dict(best[0], recipe=rc), best[1])
            if got is not None:
                best = got
                progress = True
                break
    return best


def replay_process(doc):
    from simkit import fleet
    case = e1.case_from_doc(doc)
    ws = [fleet.Worker.from_config(c, f"rp{i}")
          for i, c in enumerate(doc["configs"])]
    try:
        res, _t = _proc_run(ws, case, doc["schedule"])
    finally:
        for w in ws:
            w.kill()
    return case, evaluate(case, res)

# }}}


def run_enum_task(task):
    """bounded exhaustive stratum: ALL schedules of small recipes"""
    import random
    from simkit import enumsched
    seed, (_kind, k), budget, cap = task[:4]
    known = driver.load_known_findings(PROP)
    acc = e1.Accum()
    t0 = time.monotonic()
    done = 0
    i = 0
    while done < budget and i < 400:
        rng = random.Random(f"{seed}:{PROP}:enum:{k}:{i}")
        i += 1
        recipe = mrecipe.gen_recipe(rng, max_ranks=3,
                                    max_comm=rng.choice([1, 2, 2, 3]))
        _live, livec = mrecipe.live_sets(recipe)
        if recipe["nranks"] < 2 or not livec:
            continue
        out = enumsched.enumerate_case(recipe, evaluate, max_runs=cap)
        done += out["schedules"]
        acc.runs += out["schedules"]
        acc.extra["enum_schedules"] += out["schedules"]
        acc.extra["enum_recipes"] += 1
        key = f"enum[{recipe['nranks']} ranks,{len(livec)} msgs]"
        if out["exhaustive"]:
            acc.extra["enum_recipes_exhausted"] += 1
            acc.extra[key + ":exhausted"] += 1
            acc.extra[key + ":schedules"] += out["schedules"]
        else:
            acc.extra[key + ":capped"] += 1
        if out["bad"] is not None:
            b = out["bad"]
            rest, hits = match_known(b["case"], b["violations"], known)
            for h in hits:
                acc.known.append((h, f"enum{k}", i))
            if rest:
                acc.violations.append({
                    "stream": f"enum{k}", "run": i, "case": b["case"],
                    "decisions": b["decisions"],
                    "classes": e1.classes_of(rest), "details": rest[:8]})
                break
    acc.wall = time.monotonic() - t0
    return acc


def run_stream(task):
    if isinstance(task[1], tuple):
        if task[1][0] == "proc":
            return run_proc_group(task)
        return run_enum_task(task)
    seed, stream, nruns, codegen_every = task[:4]
    shadow_every = task[4] if len(task) > 4 else 0
    known = driver.load_known_findings(PROP)
    acc = e1.Accum()
    t0 = time.monotonic()
    for run in range(nruns):
        case, rng = e1.make_case(seed, PROP, stream, run,
                                 codegen_every=codegen_every)
        if shadow_every and run % shadow_every == shadow_every - 1:
            # (late in the stream: quick wins first when hunting a violation)
            case["real_codegen"] = True
            case["shadow_exec"] = True
        try:
            res, trace = e1.run_with(case, None, rng,
                                     cross_check=(run % 8 == 1))
        except distrun.HarnessDisagreement as e:
            acc.harness_errors.append(f"stream {stream} run {run}: {e}")
            continue
        acc.note_run(case, res)
        acc.sample(case, res, trace)
        v = evaluate(case, res)
        if v:
            rest, hits = match_known(case, v, known)
            for h in hits:
                acc.known.append((h, stream, run))
            if rest:
                acc.violations.append({
                    "stream": stream, "run": run, "case": case,
                    "decisions": trace, "classes": e1.classes_of(rest),
                    "details": rest[:8]})
                if len(acc.violations) >= 3:
                    break
    acc.wall = time.monotonic() - t0
    return acc


def replay(path):
    import json
    with open(path) as f:
        doc = json.load(f)
    if doc.get("mode") == "process":
        case, v = replay_process(doc)
        rest, _hits = match_known(case, v, driver.load_known_findings(PROP))
        return doc, e1.classes_of(rest), rest
    case = e1.case_from_doc(doc)
    res, _trace = e1.run_with(case, doc["schedule"])
    v = evaluate(case, res)
    rest, _hits = match_known(case, v, driver.load_known_findings(PROP))
    return doc, e1.classes_of(rest), rest

# vim: foldmethod=marker


def make_tasks(seed, conf):
    tasks = [(seed, k, conf["runs"], conf["codegen_every"],
              conf.get("shadow_every", 0)) for k in range(conf["streams"])]
    for g in range(conf.get("proc_groups", 0)):
        tasks.insert(min(len(tasks), 3 * g + 1),
                     (seed, ("proc", g), conf["proc_runs"]))
    for k in range(conf.get("enum_tasks", 0)):
        tasks.insert(min(len(tasks), 2 * k),
                     (seed, ("enum", k), conf["enum_budget"], conf["enum_cap"]))
    return tasks


def coverage_extra(total):
    ex = {k: int(v) for k, v in sorted(total.extra.items())
          if k.startswith("enum")}
    return {"bounded_exhaustive_stratum": dict(
        ex, note="depth-first enumeration of all schedules (deliveries, send "
                 "completions, Wait/Waitsome wake-ups, every non-empty Waitsome "
                 "subset; eager and rendezvous) of small recipes (<=3 ranks, "
                 "<=3 messages); 'exhausted' = the whole schedule tree of that "
                 "recipe was visited; evaluations above include these runs")}
