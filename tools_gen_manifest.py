"""Regenerates MANIFEST.json from the table below (kept as code so that the
file stays consistent); run: /venv/bin/python tools_gen_manifest.py"""
import json

NA = {
 "C01": "pure function program x input -> value (generate_loopy output vs NumPy); no schedule, clock, fault, process or history for a simulator to control; dressing random program generation as a 'workload' would be differential testing, another technique family. (Process-dependence of generated code is C17, claimed.)",
 "C02": "pure function of one node's parameters (lowering to IndexLambda preserves meaning); the property itself asks for exhaustive enumeration in a bounded scope = bounded model checking / exhaustive testing, no nondeterminism to simulate.",
 "C03": "pure differential statement (constructor shape/dtype inference vs NumPy); no schedule, fault or history.",
 "C05": "each clause compares f(g) with g for one deterministic call (value, idempotence, input not mutated); pipelines of transformations are compositions of pure functions, not schedules.",
 "C06": "pure algebraic identity over expressions and policy callbacks (einsum distributive-law rewrite).",
 "C07": "tagged vs untagged program on equal inputs: a pure comparison with no interleaving, fault or history dimension.",
 "C11": "universally quantified over all loop-index and size-parameter valuations; the property says 'decided symbolically, not sampled'; an out-of-bounds read does not show in values. An ISL/SMT check is another family.",
 "C12": "pure: trace / inline a function call and evaluate.",
 "C13": "statement about one traversal of one graph by one mapper (visit counts, sharing); a mapper cache is state but no ordering of operations, fault or concurrency enters.",
 "C14": "pure: generated Python/JAX source evaluated vs NumPy. (Process-independence of the generated text is part of C17, claimed.)",
 "C15": "pure function of the user's names (names in, names out of generated code).",
 "C16": "universally quantified integer arithmetic over symbolic size parameters (SMT / exhaustive grid); pure.",
 "C19": "pure pattern-matching soundness of IndexLambda raising.",
 "C20": "pure functions of the graph (analyses vs a reflective walk); no schedule, fault or history.",
}

PENDING = {p: "claimed in DESIGN.md (deterministic simulation applies); check under construction, not yet registered" for p in ("C04", "C09", "C10", "C17", "C18")}

CHECKS = {
 "C08": dict(
   engine="E1-SimMPI",
   category="exploration",
   text="Seeded search over (multi-rank program, message/part schedule, legal MPI perturbation) triples: every run executes the real find_distributed_partition / verify / number_distributed_tags / execute_distributed_partition on 1-4 simulated ranks under a scheduler that owns every interleaving (delivery order and delay, Waitsome subsets and order, eager vs rendezvous sends with late buffer reads, poisoned receive buffers, stalled ranks, PCT priorities, back-to-back re-execution). Invariants during the run (no exception, deadlock, livelock, poison read, size mismatch) and over the history (outputs equal the recipe-level NumPy evaluation of the global data flow exactly; exactly-once message accounting; bounded liveness). Sampling, not proof: a clean batch is evidence for the sampled space (ranks<=4, comm ops<=6).",
   design_ref="DESIGN.md sections 2, 4, 5 (C08)",
   note="Trusted: the SimMPI kernel implements MPI matching/completion semantics for the subset pytato uses (Isend/Irecv/Waitsome/Wait, pickle-based collectives); the recipe-level NumPy oracle and RefEval (cross-checked against each other on 1 run in 8); numerical execution of a part is RefEval on the part's expressions, not the compiled kernel (generate_loopy is run for its exceptions on sampled runs, with a communication-free control compile to tell partition-induced failures from code generation's own).",
   technique="deterministic simulation: seeded schedule + perturbation search on a simulated MPI, reference-model oracle, minimised replay files"),
}

def cmd(pid, tier):
    return f"./check {pid} --tier {tier}"

manifest = {
 "version": 1,
 "setup_cmd": "/venv/bin/python -c \"import pytato, loopy, numpy, pymbolic; print('ok')\" && chmod +x /verif/check",
 "hooks": {
   "guard": "PYTATO_VERIF",
   "enable": "no hooks exist: every seam the simulators need (the mpi_communicator argument, 'from mpi4py import MPI' inside the functions with mpi4py absent from the sandbox, the prg_per_partition argument, pyopencl.array.to_device as a module attribute, the child interpreter's environment) is reachable from outside; checks import pytato from /repo's working tree as is",
   "baseline_off_cmd": "cd /repo && /venv/bin/python -m pytest -ra -q -p no:cacheprovider --timeout=900 --continue-on-collection-errors",
   "source_commits": [],
   "add_only": True,
 },
 "engines": [
   {"name": "E1-SimMPI", "path": "simkit/simmpi.py", "serves_properties": ["C08", "C09", "C10", "C17"],
    "kind_free_text": "deterministic message-passing simulator presenting the mpi4py subset pytato uses; baton-passing rank threads running unmodified pytato code; one seeded chooser decides every interleaving and perturbation; replayable decision lists"},
   {"name": "E2-fleet", "path": "simkit/fleet.py", "serves_properties": ["C04", "C17", "C18", "C09"],
    "kind_free_text": "interpreter-population simulator: child interpreters under setarch -R with seeded PYTHONHASHSEED, heap prelude and allocation history; only bytes (recipes, pickles) cross; crash/restart of interpreters with only pickled state surviving"},
 ],
 "checks": [],
 "not_applicable": [],
 "notes": "Technique family: deterministic simulation with fault injection. See DESIGN.md. Exit codes: 0 property held on everything explored (KNOWN-FINDING lines possible), 1 VIOLATION (replay confirmed in a fresh process), 2 harness error (no VIOLATION line).",
}
for pid in sorted(CHECKS):
    c = CHECKS[pid]
    manifest["checks"].append({
      "property_id": pid,
      "quick_cmd": cmd(pid, "quick"),
      "thorough_cmd": cmd(pid, "thorough"),
      "evidence_file": f"/verif/evidence/{pid}.json",
      "replay_cmd_template": f"./check {pid} --replay {{path}}",
      "engine": c["engine"],
      "level_claimed": {"category": c["category"], "text": c["text"], "design_ref": c["design_ref"]},
      "level_note": c["note"],
      "technique": c["technique"],
    })
for pid in sorted(NA):
    manifest["not_applicable"].append({"property_id": pid, "reason": "not applicable to deterministic simulation: " + NA[pid]})
for pid in sorted(PENDING):
    manifest["not_applicable"].append({"property_id": pid, "reason": PENDING[pid]})
json.dump(manifest, open("MANIFEST.json", "w"), indent=1)
print("checks:", [c["property_id"] for c in manifest["checks"]], "n/a:", len(manifest["not_applicable"]))
