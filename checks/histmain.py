"""Runner shared by the C04 and C18 checks (engine E2, seeded histories)."""
from __future__ import annotations

import collections
import copy
import json
import os
import random
import sys
import time

from simkit import driver, fleet, histories

C18_PREFIXES = ("key-", "same-structure-but-key-differs", "keying-")


def is_c18_class(cls):
    return cls.startswith(C18_PREFIXES)


def _mine(prop, cls):
    if cls.startswith("HARNESS:"):
        return False
    return is_c18_class(cls) if prop == "C18" else not is_c18_class(cls)


def _plan(prop, seed, session, conf):
    rng = random.Random(f"{seed}:{prop}:{session}")
    k = rng.choice(conf["workers"])
    cfgs = fleet.draw_configs(rng, k)
    hists = [histories.gen_history(
        random.Random(f"{seed}:{prop}:{session}:h{j}"), k, cfgs,
        f"s{session}h{j}") for j in range(conf["histories"])]
    return cfgs, hists


def run_session(task):
    prop, seed, session, conf = task
    t0 = time.monotonic()
    cfgs, hists = _plan(prop, seed, session, conf)
    fl = histories.Fleet(cfgs)
    stats: dict = {}
    key_table: dict = {}
    out = {"session": session, "violations": [], "harness": [], "stats": stats,
           "histories": 0, "fps": [], "configs": cfgs, "samples": [],
           "nontrivial": set(), "wall": 0.0}
    bad = 0
    try:
        for j, hist in enumerate(hists):
            # a crash inside a history changes a worker's configuration for
            # the rest of the session: record the configuration it starts from
            start_cfgs = [dict(c) for c in fl.configs]
            viol = histories.run_history(fl, hist, with_keys=True, stats=stats,
                                         key_table=key_table)
            out["histories"] += 1
            kinds = collections.Counter(op["op"] for op in hist["ops"])
            nbulk = sum(1 for r in hist["recipes"] for st in r["steps"]
                        if st["op"] == "dwgen")
            if nbulk:
                stats["histories_with_bulk_data"] = \
                    stats.get("histories_with_bulk_data", 0) + 1
                stats["bulk_data_leaves"] = \
                    stats.get("bulk_data_leaves", 0) + nbulk
            if kinds["pickle"] or kinds["mutate"] or kinds["unpickle"]:
                out["nontrivial"].add(driver.sha(json.dumps(hist, sort_keys=True)))
            if len(out["samples"]) < 1:
                out["samples"].append({
                    "configs": start_cfgs,
                    "ops": [{k: v for k, v in op.items()} for op in hist["ops"]][:30],
                    "n_recipes": len(hist["recipes"]),
                    "first_recipe": hist["recipes"][0]})
            if os.environ.get("VERIF_ADDR_TRACE"):
                with open(os.environ["VERIF_ADDR_TRACE"], "a") as f:
                    f.write(f"{session} {j} "
                            f"{[w.call('addr_probe')[0] for w in fl.workers]}\n")
            mine = [v for v in viol if _mine(prop, v["class"])]
            for v in viol:
                if v["class"].startswith("HARNESS:"):
                    out["harness"].append(f"session {session} history {j}: "
                                          f"{v['detail'][-500:]}")
            if mine:
                bad += 1
                out["violations"].append({
                    "history_index": j, "history": hist, "configs": start_cfgs,
                    "classes": sorted({v["class"] for v in mine}),
                    "details": mine[:6]})
                if bad >= 3:
                    break
        out["fps"] = [json.dumps(f, sort_keys=True) for f in fl.fps]
        stats["restarts"] = fl.restarts
    finally:
        fl.close()
    out["wall"] = time.monotonic() - t0
    return out


def _run_doc(prop, doc, fl=None):
    """run the history of a replay doc in fresh interpreters; returns classes"""
    own = fl is None
    if own:
        fl = histories.Fleet(doc["configs"])
    try:
        for j, prior in enumerate(doc.get("prior_histories") or []):
            histories.run_history(fl, prior)
            if os.environ.get("VERIF_ADDR_TRACE"):
                with open(os.environ["VERIF_ADDR_TRACE"], "a") as f:
                    f.write(f"{doc.get('session')} {j} "
                            f"{[w.call('addr_probe')[0] for w in fl.workers]}\n")
        viol = histories.run_history(fl, doc["history"])
    finally:
        if own:
            fl.close()
    return sorted({v["class"] for v in viol if _mine(prop, v["class"])}), viol


def minimise(prop, v, target, budget_s):
    t0 = time.monotonic()
    hist = copy.deepcopy(v["history"])
    doc = {"configs": v["configs"], "history": hist}
    classes, _ = _run_doc(prop, doc)
    if target not in classes:
        return hist, False
    i = len(hist["ops"]) - 1
    while i >= 0 and time.monotonic() - t0 < budget_s:
        op = hist["ops"][i]
        if op["op"] in ("drop",):
            del hist["ops"][i]
            i -= 1
            continue
        trial = copy.deepcopy(hist)
        del trial["ops"][i]
        try:
            classes, _ = _run_doc(prop, {"configs": v["configs"], "history": trial})
        except Exception:  # noqa: BLE001
            classes = []
        if target in classes:
            hist = trial
        i -= 1
    return hist, True


def run_check(prop, tiers, assumptions, tier, budget_s=None):
    seed = driver.get_seed()
    conf = dict(tiers[tier])
    if budget_s:
        conf["budget_s"] = budget_s
    timer = driver.Timer()
    pyt = driver.assert_repo_pytato()
    print(f"[{prop}] tier={tier} VERIF_SEED={seed} pytato={pyt}", flush=True)
    tasks = [(prop, seed, s, conf) for s in range(conf["sessions"])]
    deadline = time.monotonic() + conf["budget_s"] if conf["budget_s"] else None
    nproc = max(1, (os.cpu_count() or 4) // 3)
    results = []
    trouble = []
    nbad = 0

    def stop_when(r):
        nonlocal nbad
        nbad += bool(r["violations"])
        return nbad >= 3
    for idx, _t, status, r in driver.forkpool(
            tasks, run_session, nproc=nproc, timeout=1500.0,
            stop_when=stop_when, deadline=deadline):
        if status == "ok":
            results.append(r)
            trouble += r["harness"]
        elif status != "skipped":
            trouble.append(f"session {idx}: {status}: {str(r)[-1200:]}")
    results.sort(key=lambda r: r["session"])
    known = {k["class"]: k for k in driver.load_known_findings(prop)}
    known_seen = collections.Counter()
    by_class: dict = {}
    for r in results:
        for v in r["violations"]:
            fresh = [c for c in v["classes"] if c not in known]
            for c in v["classes"]:
                if c in known:
                    known_seen[c] += 1
            if fresh:
                by_class.setdefault(fresh[0], (r, v))
    reported = []
    for target, (r, v) in sorted(by_class.items())[:4]:
        hist, alone = minimise(prop, v, target,
                               60.0 if tier == "quick" else 180.0)
        doc = {"property": prop, "seed": seed, "session": r["session"],
               "history_index": v["history_index"], "target_class": target,
               "classes": v["classes"], "details": v["details"],
               "configs": v["configs"], "history": hist,
               "original_ops": len(v["history"]["ops"]),
               "minimised_ops": len(hist["ops"]), "prior_histories": None}
        if not alone:
            # depends on the allocation history: ship the session prefix
            cfgs, hists = _plan(prop, seed, r["session"], conf)
            doc["configs"] = cfgs
            doc["history"] = v["history"]
            doc["prior_histories"] = hists[:v["history_index"]]
        path = driver.write_replay(prop, f"{seed}-{r['session']}-"
                                   f"{v['history_index']}-{len(reported)}", doc)
        ok, outp = driver.confirm_replay(prop, path, timeout=1500)
        if ok:
            reported.append((target, path, v, doc))
        else:
            trouble.append(f"violation {target} in session {r['session']} "
                           f"history {v['history_index']} did not reproduce: "
                           f"{outp[-400:]}")
    for c in sorted(known_seen):
        print(f"KNOWN-FINDING: property={prop} {known[c]['id']}: "
              f"{known[c]['what']} (seen in {known_seen[c]} histories)")
    for target, path, v, doc in reported:
        print(f"[{prop}] {target} (history of {doc['original_ops']} operations "
              f"minimised to {doc['minimised_ops']}):")
        for d in v["details"][:3]:
            print(f"    {d['class']} at op {d['op_index']}: {d['detail'][:300]}")
        print(f"VIOLATION property={prop} replay={path}", flush=True)
    wall = timer()
    stats = collections.Counter()
    fps = set()
    nontrivial = set()
    for r in results:
        stats.update(r["stats"])
        fps |= set(r["fps"])
        nontrivial |= r["nontrivial"]
    nhist = sum(r["histories"] for r in results)
    muts = {k[4:]: int(v) for k, v in sorted(stats.items()) if k.startswith("mut:")}
    coverage = {
        "evaluations": nhist,
        "distinct_nontrivial": len(nontrivial),
        "rule": "one evaluation = one seeded history (5-25 operations among "
                "build / independent rebuild / single-field mutate / reorder "
                "mappings / API round trip / sub-object / hash / key / pickle "
                "/ unpickle here, in another or in a restarted interpreter / "
                "deepcopy / crash / junk allocation / check) over 2-4 "
                "interpreters with distinct hash seeds and heaps; distinct "
                "non-trivial = distinct histories containing at least one "
                "pickle, unpickle or mutate operation",
        "samples": [s for r in results for s in r["samples"]][:2],
        "sessions": len(results),
        "operations": int(stats["ops"]),
        "histories_per_hour": round(nhist / wall * 3600) if wall else 0,
        "simulated_time_note": "no clock in pytato; the history length "
                               "(operations) is the time axis",
        "interpreters_launched": sum(len(r["configs"]) for r in results)
        + int(stats["restarts"]),
        "distinct_fingerprints": len(fps),
        "interpreters_started_with_python_-O": sum(
            1 for f in fps if '"debug": false' in f),
        "faults_fired": {
            "crash_restarts": int(stats["crash_restarts"]),
            "unpickles": int(stats["unpickles"]),
            "unpickles_under_another_hash_seed":
                int(stats["unpickles_under_another_hash_seed"]),
            "pickles": int(stats["pickles"]),
            "hash_forced_before_other_ops": int(stats["hash_forced"]),
            "junk_allocation_ops": int(stats["junk_ops"]),
            "address_reuse_churn_rounds": int(stats["churn_rounds"]),
        },
        "address_reuse_churn": {
            "rounds_of_build_compare_key_discard": int(stats["churn_rounds"]),
            "comparisons_of_transient_graphs": int(stats["churn_comparisons"]),
            "keys_of_transient_graphs_in_content_bijection":
                int(stats["churn_keys"]),
            "wrapped_data_leaf_alternation_rounds":
                int(stats["leaf_alternations"]),
            "same_shape_alternation_rounds_at_recycled_addresses":
                int(stats["same_shape_alternations"]),
            "transient_keys_compared_with_a_peer_building_from_scratch":
                int(stats["churn_keys_compared_with_peer"]),
        },
        "other_consumers_run_between_operations": {
            k[4:]: int(v) for k, v in sorted(stats.items())
            if k.startswith("use_")},
        "size_knobs": {
            "histories_with_bulk_data": int(stats["histories_with_bulk_data"]),
            "bulk_data_leaves_0.5KiB_to_1MiB": int(stats["bulk_data_leaves"]),
        },
        "history_driven_checks": {
            "pairs_compared": int(stats["check_pairs"]),
            "equal_pairs": int(stats["check_equal_pairs"]),
            "hash_consistency_checks": int(stats["check_hash_checks"]),
            "container_membership_checks": int(stats["check_container_checks"]),
            "transitivity_triples": int(stats["check_triples"]),
            "key_pairs": int(stats["check_key_pairs"]),
            "key_observations_across_processes": int(stats["key_observations"]),
            "keys_recomputed": int(stats["keys"]),
        },
        "single_field_checks": {
            "orig_vs_mutant_pairs": int(stats["check_field_pairs"]),
            "mutations": int(stats["mutations"]),
            "mutations_ineffective": int(stats["mutations_ineffective"]),
            "field_sweeps_one_mutant_per_signature_of_a_graph":
                int(stats["sweeps"]),
            "field_sweep_mutants": int(stats["sweep_mutants"]),
            "derive_sweep_objects_tagged_after_caching_vs_pristine_twin":
                int(stats["derive_sweep_objects"]),
            "distinct_node_kind_field_pairs": len(muts),
            "by_node_kind_and_field": muts,
        },
        "components": {
            "real": ["pytato array constructors (public API) and dataclass "
                     "machinery: __eq__ / EqualityComparer, generated "
                     "__hash__ with _hash_value cache, __getstate__ / "
                     "__setstate__, pickle, copy.deepcopy, PytatoKeyBuilder"],
            "stub": ["nothing inside an interpreter; the 'other processes' are "
                     "real child interpreters under setarch -R"]},
        "known_findings_seen": sorted(known_seen),
        "harness_trouble": trouble[:8],
        "exhaustive": False,
    }
    driver.write_evidence(prop, tier, seed, "exploration", coverage, wall,
                          len(reported), assumptions)
    print(f"[{prop}] sessions={len(results)} histories={nhist} "
          f"ops={int(stats['ops'])} pairs={int(stats['check_pairs'])} "
          f"field-pairs={int(stats['check_field_pairs'])} "
          f"kinds.fields={len(muts)} restarts={int(stats['restarts'])} "
          f"fingerprints={len(fps)} violations={len(reported)} "
          f"wall={wall:.1f}s", flush=True)
    if reported:
        return 1
    if trouble or not results or len(fps) < 2:
        for t in trouble[:5]:
            print(f"[{prop}] HARNESS-ERROR: {t}", file=sys.stderr)
        return 2
    return 0


def run_replay(prop, path):
    driver.assert_repo_pytato()
    with open(path) as f:
        doc = json.load(f)
    classes, viol = _run_doc(prop, doc)
    print(f"[{prop}] replay: classes now {classes}; recorded {doc['classes']}")
    if doc["target_class"] in classes:
        for v in viol[:4]:
            if v["class"] in classes:
                print(f"    {v['class']} at op {v['op_index']}: "
                      f"{v['detail'][:300]}")
        print(f"VIOLATION property={prop} replay={path}", flush=True)
        return 1
    print(f"[{prop}] not reproduced")
    return 0
