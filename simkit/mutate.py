"""Reflective single-field mutation of pytato graphs (for the 'differs in
exactly one field' half of C04 / C18) and structure-preserving re-creation
(reordered mappings) for the 'equal' half.  Works on dataclass fields only;
does not use pytato's mappers, copy() or replace()."""
from __future__ import annotations

import copy
import enum
from collections.abc import Mapping

import numpy as np

from . import htags
from .walker import _is_dc, field_items, iter_nodes


def _clone_with(obj, changes):
    new = copy.copy(obj)
    for k, v in changes.items():
        object.__setattr__(new, k, v)
    d = getattr(new, "__dict__", None)
    if d is not None:
        # per-object caches (_hash_value, _pytools_persistent_hash_digest,
        # memoize_method results) must not travel to the modified copy
        import dataclasses
        names = {f.name for f in dataclasses.fields(new)}
        for k in [k for k in d if k not in names]:
            try:
                object.__delattr__(new, k)
            except AttributeError:
                pass
    return new


def rebuild(root, target, changes=None, replacement=None):
    """copy of *root* in which node *target* (identified by id) has the given
    field changes (or is replaced); ancestors are re-created reflectively,
    everything else is shared."""
    memo: dict = {}

    def rec(v):
        if v is None or isinstance(v, (bool, int, float, complex, str, bytes,
                                       np.generic, np.ndarray, np.dtype, type,
                                       enum.Enum)):
            return v
        key = id(v)
        if key in memo:
            return memo[key][1]
        res = rec_inner(v)
        memo[key] = (v, res)
        return res

    def rec_inner(v):
        if v is target:
            if replacement is not None:
                return replacement
            # children of the target stay as they are
            return _clone_with(v, changes)
        if _is_dc(v):
            try:
                import loopy as lp
                if isinstance(v, lp.TranslationUnit):
                    return v
            except ImportError:
                pass
            ch = {}
            for name, val in field_items(v):
                nv = rec(val)
                if nv is not val:
                    ch[name] = nv
            return _clone_with(v, ch) if ch else v
        if isinstance(v, tuple):
            new = tuple(rec(x) for x in v)
            return new if any(a is not b for a, b in zip(new, v)) else v
        if isinstance(v, list):
            new = [rec(x) for x in v]
            return new if any(a is not b for a, b in zip(new, v)) else v
        if isinstance(v, Mapping):
            items = [(k, rec(x)) for k, x in v.items()]
            if any(a[1] is not b for a, b in zip(items, v.values())):
                return _same_mapping_type(v, items)
            return v
        if isinstance(v, (set, frozenset)):
            return v
        return v
    return rec(root)


def _same_mapping_type(cur, items):
    try:
        return type(cur)(items)
    except Exception:  # noqa: BLE001
        from constantdict import constantdict
        return constantdict(items)


def reorder_mappings(root):
    """structurally identical copy in which every mapping field has its
    insertion order reversed (and every node is a fresh object)"""
    memo: dict = {}

    def rec(v):
        if v is None or isinstance(v, (bool, int, float, complex, str, bytes,
                                       np.generic, np.ndarray, np.dtype, type,
                                       enum.Enum)):
            return v
        key = id(v)
        if key in memo:
            return memo[key][1]
        res = inner(v)
        memo[key] = (v, res)
        return res

    def inner(v):
        from pytato.array import DataWrapper
        if isinstance(v, DataWrapper):
            return v               # identity semantics: keep the object
        if _is_dc(v):
            try:
                import loopy as lp
                if isinstance(v, lp.TranslationUnit):
                    return v
            except ImportError:
                pass
            from pymbolic.primitives import ExpressionNode
            if isinstance(v, ExpressionNode):
                return v
            return _clone_with(v, {name: rec(val) for name, val in field_items(v)})
        if isinstance(v, tuple):
            return tuple(rec(x) for x in v)
        if isinstance(v, list):
            return [rec(x) for x in v]
        if isinstance(v, Mapping):
            items = [(k, rec(x)) for k, x in v.items()]
            items.reverse()
            return _same_mapping_type(v, items)
        return v
    return rec(root)


def relayout(root, rng):
    """copy of *root* in which every DataWrapper wraps the same logical data in
    another memory layout (structurally equal in content mode)"""
    import pytato as pt
    from pytato.array import DataWrapper
    from .srecipe import layout_array
    cur = root
    changed = 0
    for v in [v for v in iter_nodes(root) if isinstance(v, DataWrapper)]:
        if not isinstance(v.data, np.ndarray):
            continue
        lay = rng.choice(["C", "F", "T", "strided"])
        nd = layout_array(np.array(v.data, copy=True), lay)
        repl = _clone_with(v, {"data": nd})
        cur = rebuild(cur, v, replacement=repl)
        changed += 1
    # ... and, in one node, the Python ints of a shape / an index / an axis
    # number / a shift become numpy integers of the same value (what a user
    # gets from len(), np.prod or an index computed with numpy): equal for ==,
    # equal hash, and the persistent key must agree as well
    cands = []
    for v in iter_nodes(cur):
        if not _is_dc(v):
            continue
        for name, val in field_items(v):
            if isinstance(val, int) and not isinstance(val, bool):
                cands.append((v, name, val))
            elif isinstance(val, tuple) and val and all(
                    isinstance(x, int) and not isinstance(x, bool) for x in val):
                cands.append((v, name, val))
    if cands:
        v, name, val = cands[rng.randrange(len(cands))]
        tp = rng.choice([np.int64, np.int64, np.int32, np.intp])
        nv = tuple(tp(x) for x in val) if isinstance(val, tuple) else tp(val)
        cur = rebuild(cur, v, changes={name: nv})
        changed += 1
    return cur, changed


# {{{ mutation sites

def _node_types():
    from pytato.array import (
        AbstractResultWithNamedArrays, Array, Axis, CSRMatrix, NormalizedSlice,
        ReductionDescriptor)
    from pytato.distributed.nodes import DistributedSend
    from pytato.function import FunctionDefinition
    return (Array, AbstractResultWithNamedArrays, FunctionDefinition,
            DistributedSend, CSRMatrix, Axis, ReductionDescriptor,
            NormalizedSlice)


def sites(root):
    """[(node, field name)] in deterministic order"""
    types = _node_types()
    out = []
    for v in iter_nodes(root):
        if isinstance(v, types):
            for name, _val in field_items(v):
                out.append((v, name))
            from pytato.array import DataWrapper
            if isinstance(v, DataWrapper) and isinstance(v.data, np.ndarray):
                out.append((v, "data:element"))
                out.append((v, "data:dtype-same-bytes"))
                out.append((v, "data:shape-same-bytes"))
                if v.data.dtype.itemsize > 1:
                    out.append((v, "data:byteorder-same-bytes"))
                if v.data.ndim >= 2 and not v.data.flags.c_contiguous:
                    out.append((v, "data:memory-bytes-same"))
            if isinstance(v, DataWrapper) and isinstance(v.data, np.generic):
                out.append((v, "data:scalar-element"))
                out.append((v, "data:scalar-dtype-same-bytes"))
            from pytato.array import IndexLambda
            if isinstance(v, IndexLambda) and _count_np_scalars(v.expr):
                out.append((v, "expr:scalar-dtype-same-bytes"))
            if isinstance(v, IndexLambda) and _count_op_sites(v.expr):
                out.append((v, "expr:operation"))
    return out


# {{{ numpy scalars inside scalar expressions (reflective, no pymbolic mapper)

_SAME_BYTES = {"float32": "int32", "int32": "float32", "float64": "int64",
               "int64": "float64", "uint32": "int32", "complex64": "float64",
               "int8": "uint8", "uint8": "int8"}


def same_bytes_scalar(x):
    """another numpy scalar with the same bytes and another dtype (and
    another value), or None"""
    tgt = _SAME_BYTES.get(x.dtype.name)
    if tgt is None:
        return None
    y = np.frombuffer(np.asarray(x).tobytes(), dtype=tgt)[0]
    if y.tobytes() != np.asarray(x).tobytes():
        return None
    if y != y:
        # NaN: pytato's constructors turn NaN scalars into pymbolic's NaN
        # node, a raw NaN constant is not an object the API can produce (and
        # compares unequal to its own copy)
        return None
    return y


def _map_np_scalars(expr, fn):
    """copy of a (dataclass based) pymbolic expression with fn applied to
    every numpy scalar leaf, in a fixed order"""
    import dataclasses

    def rec(v):
        if isinstance(v, np.generic):
            return fn(v)
        if isinstance(v, tuple):
            new = tuple(rec(x) for x in v)
            return new if any(a is not b for a, b in zip(new, v)) else v
        if dataclasses.is_dataclass(v) and not isinstance(v, type):
            changes = {}
            for f in dataclasses.fields(v):
                old = getattr(v, f.name)
                new = rec(old)
                if new is not old:
                    changes[f.name] = new
            return dataclasses.replace(v, **changes) if changes else v
        return v
    return rec(expr)


_FN_SWAP = {"sin": "cos", "cos": "sin", "exp": "tanh", "tanh": "exp",
            "sqrt": "log", "log": "sqrt", "isnan": "isnan", "real": "imag",
            "imag": "real", "abs": "sqrt", "conj": "real"}
_CMP_SWAP = {"<": "<=", "<=": "<", ">": ">=", ">=": ">", "==": "!=",
             "!=": "=="}


def _op_swapped(v):
    """the same scalar-expression node with another OPERATION (a reduction
    operation, a comparison operator, a math function), or None"""
    import pymbolic.primitives as prim
    import pytato.reductions as red
    from pytato.scalar_expr import Reduce
    if isinstance(v, Reduce):
        pairs = [(red.SumReductionOperation, red.ProductReductionOperation),
                 (red.MaxReductionOperation, red.MinReductionOperation),
                 (red.AllReductionOperation, red.AnyReductionOperation)]
        for a, b in pairs:
            if type(v.op) is a:
                return Reduce(v.inner_expr, b(), v.bounds)
            if type(v.op) is b:
                return Reduce(v.inner_expr, a(), v.bounds)
        return None
    if isinstance(v, prim.Comparison) and v.operator in _CMP_SWAP:
        return prim.Comparison(v.left, _CMP_SWAP[v.operator], v.right)
    if isinstance(v, prim.Call) and isinstance(v.function, prim.Variable):
        mod, _, fn = v.function.name.rpartition(".")
        if fn in _FN_SWAP and _FN_SWAP[fn] != fn:
            return prim.Call(prim.Variable(f"{mod}.{_FN_SWAP[fn]}"
                                           if mod else _FN_SWAP[fn]),
                             v.parameters)
    return None


def _map_expr_nodes(expr, fn):
    """copy of a (dataclass based) expression; fn(node) -> replacement or None
    is offered every dataclass node, outermost first, in a fixed order"""
    import dataclasses
    from collections.abc import Mapping

    def rec(v):
        if isinstance(v, tuple):
            new = tuple(rec(x) for x in v)
            return new if any(a is not b for a, b in zip(new, v)) else v
        if isinstance(v, Mapping):
            return v
        if dataclasses.is_dataclass(v) and not isinstance(v, type):
            r = fn(v)
            if r is not None:
                return r
            changes = {}
            for f in dataclasses.fields(v):
                old = getattr(v, f.name)
                new = rec(old)
                if new is not old:
                    changes[f.name] = new
            return dataclasses.replace(v, **changes) if changes else v
        return v
    return rec(expr)


def _count_op_sites(expr):
    n = [0]

    def fn(v):
        if _op_swapped(v) is not None:
            n[0] += 1
        return None
    _map_expr_nodes(expr, fn)
    return n[0]


def _count_np_scalars(expr):
    n = [0]

    def fn(x):
        n[0] += 1
        return x
    _map_np_scalars(expr, fn)
    return n[0]

# }}}


def site_signature(node, fname):
    return f"{type(node).__name__}.{fname}"


class Ineffective(Exception):
    pass


def _fresh_placeholder(like, counter):
    import pytato as pt
    counter[0] += 1
    try:
        shape = tuple(int(s) for s in like.shape)
    except Exception:  # noqa: BLE001
        shape = (3,)
    return pt.make_placeholder(f"mut{counter[0]}", shape, like.dtype)


def _other_dtype(dt):
    dt = np.dtype(dt)
    return np.dtype("float32") if dt == np.float64 else np.dtype("float64")


def new_value(node, fname, cur, rng, counter):
    import pymbolic.primitives as prim
    import pytato as pt
    from pytato.array import (
        AbstractResultWithNamedArrays, Axis, CSRMatrix, NormalizedSlice,
        ReductionDescriptor)
    from pytato.distributed.nodes import DistributedSend
    from pytato.function import FunctionDefinition

    mut_tag = htags.HTagB(97)

    if fname == "comm_tag":
        return ("MUT", 1) if cur != ("MUT", 1) else ("MUT", 2)
    if fname == "name" and hasattr(node, "_container"):
        # a named result: another name of the same container (a name the
        # container does not have would be an ill-formed object)
        others = sorted(k for k in node._container.keys() if k != cur)
        if not others:
            raise Ineffective("container with one name")
        return others[rng.randrange(len(others))]
    if fname == "entrypoint" and hasattr(node, "translation_unit"):
        # call_loopy narrows the unit's entrypoints to the one called; the
        # other kernels are still in the callables table
        others = sorted(e for e in node.translation_unit.callables_table
                        if e != cur)
        if not others:
            raise Ineffective("translation unit with one kernel")
        return others[rng.randrange(len(others))]
    if isinstance(cur, ReductionDescriptor):
        return ReductionDescriptor(cur.tags | {mut_tag})
    if isinstance(cur, pt.Array):
        return _fresh_placeholder(cur, counter)
    if isinstance(cur, (AbstractResultWithNamedArrays, FunctionDefinition,
                        DistributedSend, CSRMatrix)):
        raise Ineffective("container-valued field: mutated through its own fields")
    if isinstance(cur, np.dtype):
        return _other_dtype(cur)
    if isinstance(cur, bool):
        return not cur
    if isinstance(cur, (int, np.integer)):
        return int(cur) + 1
    if isinstance(cur, str):
        if fname == "order":
            return "F" if cur == "C" else "C"
        return cur + "_m"
    if isinstance(cur, enum.Enum):
        others = [m for m in type(cur) if m is not cur]
        if not others:
            raise Ineffective("enum with one member")
        return others[0]
    if isinstance(cur, frozenset):
        if all(isinstance(x, str) for x in cur) and fname == "parameters":
            return cur | {"zz_mut"}
        if cur and rng.random() < 0.4:
            return frozenset(sorted(cur, key=repr)[1:])
        return cur | {mut_tag}
    if isinstance(cur, tuple):
        if len(cur) == 0:
            if fname in ("shape", "newshape"):
                return (1,)
            if fname == "axes":
                return (Axis(frozenset()),)
            raise Ineffective("empty tuple")
        if all(isinstance(x, Axis) for x in cur):
            i = rng.randrange(len(cur))
            return (*cur[:i], Axis(cur[i].tags | {mut_tag}), *cur[i + 1:])
        if all(isinstance(x, (int, np.integer)) for x in cur):
            if fname == "axis_permutation":
                if len(cur) < 2:
                    raise Ineffective("permutation of one axis")
                return (cur[1], cur[0], *cur[2:])
            i = rng.randrange(len(cur))
            return (*cur[:i], int(cur[i]) + 1, *cur[i + 1:])
        if all(isinstance(x, pt.Array) for x in cur):
            if len(cur) >= 2 and rng.random() < 0.4 and cur[0] is not cur[1]:
                return (cur[1], cur[0], *cur[2:])
            i = rng.randrange(len(cur))
            return (*cur[:i], _fresh_placeholder(cur[i], counter), *cur[i + 1:])
        if fname == "shape":
            # symbolic shape: make one entry a different constant
            i = rng.randrange(len(cur))
            return (*cur[:i], 5 if cur[i] != 5 else 6, *cur[i + 1:])
        if fname == "indices":
            i = rng.randrange(len(cur))
            x = cur[i]
            if isinstance(x, (int, np.integer)):
                nx = int(x) + 1
            elif isinstance(x, NormalizedSlice):
                nx = NormalizedSlice(x.start, x.stop, x.step + 1
                                     if isinstance(x.step, int) else 2)
            elif isinstance(x, pt.Array):
                nx = _fresh_placeholder(x, counter)
            elif x is None:
                nx = 0
            else:
                raise Ineffective(f"index of type {type(x).__name__}")
            return (*cur[:i], nx, *cur[i + 1:])
        if fname == "access_descriptors":
            for i, acc in enumerate(cur):
                if len(acc) >= 2 and acc[0] != acc[1]:
                    return (*cur[:i], (acc[1], acc[0], *acc[2:]), *cur[i + 1:])
            if len(cur) >= 2 and cur[0] != cur[1]:
                return (cur[1], cur[0], *cur[2:])
            raise Ineffective("no two distinct access descriptors")
        raise Ineffective(f"tuple field {fname}")
    if isinstance(cur, Mapping):
        if not cur:
            if fname in ("bindings", "_data", "returns"):
                raise Ineffective("empty mapping")
            raise Ineffective("empty mapping")
        keys = sorted(cur, key=repr)
        k = keys[rng.randrange(len(keys))]
        x = cur[k]
        items = list(cur.items())
        if isinstance(x, ReductionDescriptor):
            nx = ReductionDescriptor(x.tags | {mut_tag})
        elif isinstance(x, pt.Array):
            if isinstance(k, str) and rng.random() < 0.3:
                # rename the key instead
                nk = k + "_m"
                return _same_mapping_type(
                    cur, [(nk if kk == k else kk, vv) for kk, vv in items])
            nx = _fresh_placeholder(x, counter)
        elif isinstance(x, (int, float, np.number)):
            nx = x + 1
        else:
            raise Ineffective(f"mapping value of type {type(x).__name__}")
        return _same_mapping_type(cur, [(kk, nx if kk == k else vv)
                                        for kk, vv in items])
    if isinstance(cur, (prim.ExpressionNode, float, complex, np.number)):
        return prim.Sum((cur, 1))
    try:
        import loopy as lp
        if isinstance(cur, lp.TranslationUnit):
            from .srecipe import loopy_kernel
            if "scale" in cur.callables_table \
                    and "apply_nest" in cur.callables_table:
                # the same unit with another body of the CALLEE only
                n = int(cur["apply_nest"].arg_dict["a"].shape[0])
                # (through call_loopy, which narrows the entrypoints and runs
                # inference over the unit: the alternative must be a unit the
                # API produces, differing in nothing but the callee)
                from pytato.loopy import call_loopy
                for which in ("nest2", "nest3"):
                    alt = call_loopy(loopy_kernel(which, n), dict(node.bindings),
                                     node.entrypoint).translation_unit
                    if alt != cur:
                        return alt
                raise Ineffective("no alternative callee")
            alt = loopy_kernel("twice", 7)
            if alt == cur:
                alt = loopy_kernel("twice", 8)
            return alt
    except ImportError:
        pass
    if isinstance(cur, np.ndarray):
        new = np.array(cur, copy=True)
        if new.size == 0:
            raise Ineffective("empty data")
        flat = new.reshape(-1)
        flat[0] = (not flat[0]) if new.dtype == np.bool_ else flat[0] + 1
        return new
    if cur is None:
        raise Ineffective("None")
    raise Ineffective(f"field {fname} of type {type(cur).__name__}")


def mutate_site(root, node, fname, rng, counter):
    """-> new root with exactly that field of that node changed"""
    import pytato as pt
    if fname == "expr:operation":
        k = rng.randrange(_count_op_sites(node.expr))
        i = [0]

        def fn_op(v):
            r = _op_swapped(v)
            if r is None:
                return None
            j = i[0]
            i[0] += 1
            return r if j == k else None
        return rebuild(root, node, changes={"expr": _map_expr_nodes(
            node.expr, fn_op)})
    if fname == "expr:scalar-dtype-same-bytes":
        k = rng.randrange(_count_np_scalars(node.expr))
        i = [0]
        hit = [False]

        def fn(x):
            j = i[0]
            i[0] += 1
            if j == k:
                y = same_bytes_scalar(x)
                if y is not None:
                    hit[0] = True
                    return y
            return x
        new_expr = _map_np_scalars(node.expr, fn)
        if not hit[0]:
            raise Ineffective("no same-size dtype for this scalar")
        return rebuild(root, node, changes={"expr": new_expr})
    if fname in ("data:scalar-element", "data:scalar-dtype-same-bytes"):
        d = node.data
        if fname == "data:scalar-element":
            nd = type(d)(d + 1)
        else:
            nd = same_bytes_scalar(d)
            if nd is None:
                raise Ineffective("no same-size dtype")
        repl = pt.make_data_wrapper(nd, tags=node.tags)
        return rebuild(root, node, replacement=repl)
    if fname.startswith("data:"):
        d = node.data
        if fname == "data:element":
            if d.size == 0:
                raise Ineffective("empty data")
            nd = np.array(d, copy=True)
            flat = nd.reshape(-1)
            i = rng.randrange(flat.size)
            flat[i] = (not flat[i]) if nd.dtype == np.bool_ else flat[i] + 1
        elif fname == "data:dtype-same-bytes":
            swap = {"float64": "int64", "int64": "float64", "float32": "int32",
                    "int32": "float32", "bool": "int8", "complex128": None}
            tgt = swap.get(d.dtype.name)
            if tgt is None or d.size == 0:
                raise Ineffective("no same-size dtype")
            nd = np.ascontiguousarray(d).view(tgt).copy()
        elif fname == "data:byteorder-same-bytes":
            # the same bytes read in the other byte order ('<i4' vs '>i4'):
            # dtype.name is the same, the values are not
            if d.size == 0:
                raise Ineffective("empty data")
            nd = np.ascontiguousarray(d).view(d.dtype.newbyteorder()).copy()
            assert nd.tobytes() == np.ascontiguousarray(d).tobytes()
        elif fname == "data:memory-bytes-same":
            # another logical array whose C-order bytes are this array's bytes
            # in MEMORY order (a key built from memory-order bytes collides)
            if not d.flags.f_contiguous:
                raise Ineffective("not Fortran-contiguous")
            nd = d.ravel(order="F").reshape(d.shape).copy()
            if np.array_equal(nd, d):
                raise Ineffective("symmetric data")
        else:
            if d.size < 2:
                raise Ineffective("too small to reshape")
            if d.ndim == 1:
                if d.size % 2:
                    nd = d.reshape(1, d.size).copy()
                else:
                    nd = d.reshape(2, d.size // 2).copy()
            else:
                nd = np.ascontiguousarray(d).reshape(-1).copy()
            assert nd.tobytes() == np.ascontiguousarray(d).tobytes()
        repl = pt.make_data_wrapper(nd, tags=node.tags)
        return rebuild(root, node, replacement=repl)
    cur = getattr(node, fname)
    nv = new_value(node, fname, cur, rng, counter)
    return rebuild(root, node, changes={fname: nv})

# }}}

# vim: foldmethod=marker
