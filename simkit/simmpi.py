"""SimMPI: a deterministic, seeded message-passing simulator presenting the part
of the mpi4py interface that pytato uses.

Exactly one thread runs at any instant (baton passing): either the scheduler
or one rank actor executing real, unmodified, blocking pytato code.  Every
choice (who runs next, which matched message is delivered, which completed
requests a Waitsome reports, eager vs rendezvous, hold times, the fold order of
a commutative reduction) is taken through :class:`Chooser`, i.e. from one PRNG
or from a recorded decision list on replay.

Nothing in here reads a clock, iterates over a set, or logs object reprs.
"""
from __future__ import annotations

import pickle
import random
import sys
import threading
import types

import numpy as np


POISON = 0xAB
SPIN_LIMIT = 50


class SimLivelock(RuntimeError):
    """raised inside a rank that keeps polling without ever blocking"""


class SimProtocolError(RuntimeError):
    """the code under test used the MPI interface in a way MPI forbids"""


class _RankAbort(BaseException):
    """unwinds a rank thread when the simulation ends before the rank does"""


# {{{ chooser

class Chooser:
    """All nondeterminism of one run.  ``trace`` is the replayable decision
    list: entries ``[kind, label, index]``."""

    def __init__(self, rng: random.Random, replay=None):
        self.rng = rng
        self.replay = replay
        self.pos = 0
        self.trace: list = []

    def _from_replay(self, kind, labels):
        if self.pos < len(self.replay):
            want = self.replay[self.pos]
            self.pos += 1
            if want[0] == kind and want[1] in labels:
                return labels.index(want[1])
            return want[2] % len(labels)
        return 0

    def pick(self, kind: str, labels: list, weights=None) -> int:
        """choose an index into *labels* (JSON-able, order-stable)"""
        if self.replay is not None:
            i = self._from_replay(kind, labels)
        elif weights is not None:
            i = self.rng.choices(range(len(labels)), weights)[0]
        else:
            i = self.rng.randrange(len(labels))
        self.trace.append([kind, labels[i], i])
        return i

    def flag(self, kind: str, prob: float) -> bool:
        if self.replay is not None:
            return bool(self._from_replay(kind, [0, 1]))
        v = 1 if self.rng.random() < prob else 0
        self.trace.append([kind, v, v])
        return bool(v)

    def integer(self, kind: str, lo: int, hi: int) -> int:
        labels = list(range(lo, hi + 1))
        return labels[self.pick(kind, labels)]

# }}}


class EnumChooser(Chooser):
    """Systematic exploration: follows *prefix* (a list of option indices for
    the branching picks), then always takes option 0, and records for every
    branching pick how many options there were -- the driver backtracks over
    that record (depth-first enumeration of all schedules)."""

    def __init__(self, prefix):
        super().__init__(random.Random(0))
        self.prefix = list(prefix)
        self.choices: list = []          # [index taken, number of options]

    def pick(self, kind, labels, weights=None):
        n = len(labels)
        if n == 1:
            return 0
        k = len(self.choices)
        i = self.prefix[k] if k < len(self.prefix) else 0
        if i >= n:
            i = n - 1
        self.choices.append([i, n])
        self.trace.append([kind, labels[i], i])
        return i

    def flag(self, kind, prob):
        if prob <= 0.0:
            return False
        if prob >= 1.0:
            return True
        return bool(self.pick(kind, [0, 1]))


# {{{ facade objects (what pytato sees)

class Request:
    def __init__(self, sim, kind, rank, peer, tag, buf):
        self.sim = sim
        self.kind = kind              # "send" / "recv"
        self.rank = rank              # owner
        self.peer = peer
        self.tag = tag
        self.buf = buf
        self.complete = False
        self.consumed = False         # handed back by Wait/Waitsome: inactive
        self.id = sim._next_id()
        sim.requests.append(self)
        self.snapshot = None
        self.eager = False
        self.matched = False

    def Wait(self, status=None):
        self.sim._wait(self)
        return True

    wait = Wait

    def Test(self, status=None):
        return self.sim._test(self)

    @staticmethod
    def Waitsome(requests, statuses=None):
        return _current_sim()._waitsome(requests)

    @staticmethod
    def Waitall(requests, statuses=None):
        sim = _current_sim()
        for r in requests:
            sim._wait(r)
        return True

    @staticmethod
    def Waitany(requests, status=None):
        sim = _current_sim()
        res = sim._waitsome(requests, only_one=True)
        if res is None:
            return -32766  # MPI.UNDEFINED
        return res[0]


class _NullRequest(Request):
    """MPI.REQUEST_NULL: an inactive request.  Wait / Test return at once,
    Waitsome / Waitany / Waitall ignore it (MPI 3.1, section 3.7.5)."""

    def __init__(self):    # noqa: D107 (no simulation behind it)
        self.sim = None
        self.kind = "null"
        self.rank = None
        self.peer = None
        self.tag = None
        self.buf = None
        self.complete = True
        self.consumed = True
        self.id = -1
        self.snapshot = None
        self.eager = False
        self.matched = False

    def Wait(self, status=None):
        return True

    wait = Wait

    def Test(self, status=None):
        return True


REQUEST_NULL = _NullRequest()


class Op:
    def __init__(self, fn, commute):
        self.fn = fn
        self.commute = commute
        self.freed = False

    @staticmethod
    def Create(function, commute=False):
        return Op(function, commute)

    def Free(self):
        if self.freed:
            raise SimProtocolError("MPI.Op freed twice")
        self.freed = True


class Comm:
    def __init__(self, sim, rank):
        self._sim = sim
        self.rank = rank
        self.size = sim.n

    def Get_rank(self):
        return self.rank

    def Get_size(self):
        return self.size

    # collectives: pickle based, like mpi4py's lower-case methods
    def bcast(self, obj, root=0):
        return self._sim._collective(self.rank, "bcast", obj, root, None)

    def gather(self, sendobj, root=0):
        return self._sim._collective(self.rank, "gather", sendobj, root, None)

    def allgather(self, sendobj):
        return self._sim._collective(self.rank, "allgather", sendobj, 0, None)

    def allreduce(self, sendobj, op=None):
        if op is None:
            raise SimProtocolError("allreduce without op is not modelled")
        return self._sim._collective(self.rank, "allreduce", sendobj, 0, op)

    def barrier(self):
        return self._sim._collective(self.rank, "barrier", None, 0, None)

    Barrier = barrier

    # point to point: buffer based, like mpi4py's upper-case methods
    def Isend(self, buf, dest, tag=0):
        return self._sim._isend(self.rank, buf, dest, tag)

    def Irecv(self, buf, source, tag=0):
        return self._sim._irecv(self.rank, buf, source, tag)


_SIM_STACK: list = []


def _current_sim():
    if not _SIM_STACK:
        raise SimProtocolError("MPI call outside a simulation")
    return _SIM_STACK[-1]


def install_fake_mpi4py():
    """Put a module named mpi4py into sys.modules (mpi4py is not installed in
    this sandbox; pytato imports it inside its functions)."""
    if "mpi4py" in sys.modules and getattr(sys.modules["mpi4py"], "_simmpi", False):
        return
    mpi4py = types.ModuleType("mpi4py")
    mpi4py._simmpi = True
    MPI = types.ModuleType("mpi4py.MPI")
    MPI.Request = Request
    MPI.Op = Op
    MPI.Comm = Comm
    MPI.UNDEFINED = -32766
    MPI.REQUEST_NULL = REQUEST_NULL
    mpi4py.MPI = MPI
    sys.modules["mpi4py"] = mpi4py
    sys.modules["mpi4py.MPI"] = MPI

# }}}


# {{{ configuration

POLICIES = ("random", "pct", "starve", "late", "early", "lifo", "stall")
# ("enum" is not drawn at random: systematic exploration, see EnumChooser)


def draw_config(rng: random.Random, n: int) -> dict:
    """swarm-style: every run gets its own mix"""
    policy = rng.choice(POLICIES)
    cfg = {
        "policy": policy,
        "eager_prob": rng.choice([0.0, 0.0, 0.5, 0.5, 1.0, 0.2, 0.8]),
        "hold_prob": rng.choice([0.0, 0.0, 0.1, 0.3, 0.6]),
        "hold_max": rng.choice([1, 3, 10, 30]),
        "waitsome_all_prob": rng.choice([0.0, 0.3, 0.7, 1.0]),
        "late_read": rng.random() < 0.7,
        "pct_depth": rng.randint(1, 3),
        "starved": rng.randrange(n),
        "stall_prob": rng.choice([0.05, 0.2]),
        "stall_max": rng.choice([5, 20, 50]),
        "reduce_shuffle": rng.random() < 0.8,
    }
    # (drawn last, so that the other knobs of a given rng stay what they were)
    # user-supplied input arrays in Fortran order / with extra unused entries
    cfg["f_order_inputs"] = rng.random() < 0.15
    cfg["extra_inputs"] = rng.random() < 0.15
    return cfg


DEFAULT_CONFIG = {
    "policy": "early", "eager_prob": 1.0, "hold_prob": 0.0, "hold_max": 1,
    "waitsome_all_prob": 1.0, "late_read": False, "pct_depth": 1, "starved": 0,
    "stall_prob": 0.0, "stall_max": 1, "reduce_shuffle": False,
}

# }}}


# {{{ the kernel

def _memory_image(a):
    """the bytes MPI would put on the wire for this buffer: the array's MEMORY,
    in memory order (for a Fortran-ordered array that is not the C-order
    sequence of its elements), as a flat uint8 copy"""
    return np.frombuffer(a.tobytes(order="A"), dtype=np.uint8).copy()


class Sim:
    def __init__(self, n: int, chooser: Chooser, config: dict, *,
                 max_steps: int = 100000, transport_fault=None):
        self.n = n
        self.ch = chooser
        self.cfg = config
        self.max_steps = max_steps
        # transport faults are ILLEGAL in MPI; used only by the sensitivity
        # self-test.  {"kind": "drop"|"dup"|"corrupt"|"truncate", "nth": k}
        self.transport_fault = transport_fault
        self._id = 0
        self.log: list = []                 # event log (primitives only)
        self.sched_sem = threading.Semaphore(0)
        self.rank_sem = [threading.Semaphore(0) for _ in range(n)]
        self.state = ["new"] * n            # new/parked/running/done/raised
        self.wake = [None] * n
        self.desc = [None] * n
        self.results = [None] * n
        self.errors = [None] * n
        self.tracebacks = [None] * n
        self.current = None
        self.aborting = False
        # collectives
        self.coll_seq = [0] * n
        self.coll_pending: dict = {}        # seq -> {rank: (name, blob, root, op)}
        self.coll_results: dict = {}        # (seq, rank) -> blob or None
        self.coll_log: list = []
        # point to point
        self.send_q: dict = {}              # channel -> [send req] (post order)
        self.recv_q: dict = {}              # channel -> [recv req] (post order)
        self.channels: list = []            # channels in creation order
        self.inflight: list = []            # dict(mid, s, r, ready_at)
        self.to_complete: list = []         # rendezvous sends awaiting completion
        self.n_messages = 0
        self.spin = [0] * n
        self.stall_until = [0] * n
        self.last_perturb_step = 0
        self.step_no = 0
        self.violations: list = []          # kernel-level invariant failures
        self.stats = {
            "events": 0, "rank_steps": 0, "delivers": 0, "eager": 0,
            "rendezvous": 0, "late_read": 0, "held": 0, "stalls": 0,
            "waitsome_calls": 0, "waitsome_strict_subset": 0,
            "waitsome_multi": 0, "waitsome_none": 0, "unexpected_message": 0,
            "recv_out_of_post_order": 0, "clock_jumps": 0,
            "collectives": 0, "reduce_shuffled": 0, "pct_changes": 0,
            "rank_finished_before_peer_started": 0, "transport_faults": 0,
        }
        self.started = [False] * n
        self.recv_post_order: dict = {}     # rank -> [recv ids in post order]
        self.recv_done_order: dict = {}
        # pct state: random priorities for the ranks and for "the network"
        self.prio = {}
        self.pct_points = []
        if config["policy"] == "pct":
            pool = list(range(n + 1))       # n == the network
            level = n + 1
            while pool:
                j = self.ch.pick("pct-prio", pool) if len(pool) > 1 else 0
                self.prio[pool.pop(j)] = level
                level -= 1
            self.pct_points = sorted(
                self.ch.integer("pct-point", 1, 60)
                for _ in range(config["pct_depth"]))
        self._req_complete_by_id: dict = {}
        self.requests: list = []

    # {{{ small helpers

    def _next_id(self):
        self._id += 1
        return self._id

    def _ev(self, *items):
        self.log.append(items)

    def _kviolation(self, kind, detail):
        self.violations.append({"kind": kind, "detail": detail,
                                "event": self.stats["events"]})

    # }}}

    # {{{ rank side (runs on rank threads; each call parks the rank)

    def _park(self, rank, desc, cond):
        self.state[rank] = "parked"
        self.wake[rank] = cond
        self.desc[rank] = desc
        self.sched_sem.release()
        self.rank_sem[rank].acquire()
        if self.aborting:
            raise _RankAbort()
        self.state[rank] = "running"

    def _check_rank(self, rank):
        if self.current != rank:
            raise SimProtocolError(
                f"rank {rank} object used while rank {self.current} runs")

    def _isend(self, rank, buf, dest, tag):
        self._check_rank(rank)
        if not isinstance(tag, (int, np.integer)) or isinstance(tag, bool):
            raise SimProtocolError(f"Isend tag must be an int, got {type(tag).__name__}")
        if not (0 <= dest < self.n):
            raise SimProtocolError(f"Isend to invalid rank {dest}")
        data = np.asarray(buf)
        if not (data.flags.c_contiguous or data.flags.f_contiguous):
            # what mpi4py does with such a buffer
            raise ValueError("ndarray is not contiguous")
        req = Request(self, "send", rank, dest, int(tag), data)
        req.eager = self.ch.flag("eager", self.cfg["eager_prob"])
        if req.eager:
            req.snapshot = _memory_image(data)
            req.complete = True
            self.stats["eager"] += 1
        else:
            self.stats["rendezvous"] += 1
            if not self.cfg["late_read"]:
                req.snapshot = _memory_image(data)
        ch = (rank, dest, int(tag))
        if ch not in self.send_q:
            self.send_q[ch] = []
            self.recv_q.setdefault(ch, [])
            self.channels.append(ch)
        self.send_q[ch].append(req)
        self.n_messages += 1
        self.spin[rank] = 0
        self._ev("isend", rank, dest, int(tag), req.id, int(req.eager),
                 int(data.nbytes))
        self._park(rank, ("post-isend", req.id), _always)
        return req

    def _irecv(self, rank, buf, source, tag):
        self._check_rank(rank)
        if not isinstance(tag, (int, np.integer)) or isinstance(tag, bool):
            raise SimProtocolError(f"Irecv tag must be an int, got {type(tag).__name__}")
        if not (0 <= source < self.n):
            raise SimProtocolError(f"Irecv from invalid rank {source}")
        if not isinstance(buf, np.ndarray):
            raise SimProtocolError("Irecv buffer must be an ndarray")
        if not buf.flags.c_contiguous:
            raise SimProtocolError("Irecv buffer must be C-contiguous here")
        req = Request(self, "recv", rank, source, int(tag), buf)
        if buf.size:
            # contents of a receive buffer are undefined until completion
            buf.reshape(-1).view(np.uint8)[...] = POISON
        ch = (source, rank, int(tag))
        if ch not in self.recv_q:
            self.recv_q[ch] = []
            self.send_q.setdefault(ch, [])
            self.channels.append(ch)
        elif self.send_q[ch]:
            self.stats["unexpected_message"] += 1
        self.recv_q[ch].append(req)
        self.recv_post_order.setdefault(rank, []).append(req.id)
        self.spin[rank] = 0
        self._ev("irecv", rank, source, int(tag), req.id, int(buf.nbytes))
        self._park(rank, ("post-irecv", req.id), _always)
        return req

    def _wait(self, req):
        if req.rank is None:
            return                      # MPI.REQUEST_NULL
        self._check_rank(req.rank)
        if req.consumed:
            return
        self.spin[req.rank] = 0
        self._ev("wait", req.rank, req.id)
        self._park(req.rank, ("wait", req.id), lambda: req.complete)
        req.consumed = True

    def _test(self, req):
        self._check_rank(req.rank)
        if req.consumed:
            return True
        rank = req.rank
        self._spin_guard(rank, "Test")
        self._park(rank, ("test", req.id), _always)
        if req.complete:
            req.consumed = True
            return True
        return False

    def _spin_guard(self, rank, what):
        self.spin[rank] += 1
        if self.spin[rank] > SPIN_LIMIT:
            raise SimLivelock(
                f"rank {rank}: {SPIN_LIMIT} consecutive {what} calls without "
                "blocking or progress")

    def _waitsome(self, requests, only_one=False):
        rank = self.current
        self.stats["waitsome_calls"] += 1
        for r in requests:
            if r.rank is not None and r.rank != rank:
                raise SimProtocolError("Waitsome on another rank's request")
        active = [r for r in requests if not r.consumed]
        if not active:
            # MPI: no active request in the list -> returns at once (UNDEFINED)
            self.stats["waitsome_none"] += 1
            self._ev("waitsome-none", rank)
            self._spin_guard(rank, "Waitsome-with-no-active-request")
            return None
        self.spin[rank] = 0
        self._ev("waitsome", rank, tuple(r.id for r in active))
        self._park(rank, ("waitsome", tuple(r.id for r in active)),
                   lambda: any(r.complete for r in active))
        done = [i for i, r in enumerate(requests) if r.complete and not r.consumed]
        assert done
        if self.cfg.get("ws_enum") and not only_one and len(done) > 1:
            # systematic mode: every non-empty subset (reported ascending)
            subsets = []
            for mask in range(1, 2 ** len(done)):
                subsets.append([done[j] for j in range(len(done))
                                if mask >> j & 1])
            chosen = subsets[self.ch.pick("ws-subset",
                                          [str(x) for x in subsets])]
            if len(chosen) < len(done):
                self.stats["waitsome_strict_subset"] += 1
            if len(chosen) > 1:
                self.stats["waitsome_multi"] += 1
            for i in chosen:
                requests[i].consumed = True
                if requests[i].kind == "recv":
                    self.recv_done_order.setdefault(rank, []).append(
                        requests[i].id)
            self._ev("waitsome-ret", rank,
                     tuple(requests[i].id for i in chosen))
            return chosen
        if only_one or len(done) == 1:
            k = 1
        elif self.ch.flag("ws-all", self.cfg["waitsome_all_prob"]):
            k = len(done)
        else:
            k = self.ch.integer("ws-k", 1, len(done))
        chosen = []
        pool = done[:]
        for _ in range(k):
            j = self.ch.pick("ws-pick", pool) if len(pool) > 1 else 0
            chosen.append(pool.pop(j))
        if k < len(done):
            self.stats["waitsome_strict_subset"] += 1
        if k > 1:
            self.stats["waitsome_multi"] += 1
        for i in chosen:
            requests[i].consumed = True
            if requests[i].kind == "recv":
                self.recv_done_order.setdefault(rank, []).append(requests[i].id)
        self._ev("waitsome-ret", rank, tuple(requests[i].id for i in chosen))
        # MPI leaves the order of reported indices unspecified
        return chosen

    def _collective(self, rank, name, obj, root, op, raw=False):
        """raw: *obj* already is the pickle made by the rank's own interpreter
        (process actors); the result is handed back as bytes (for a gather at
        the root: as ("list", [bytes])) and *op* must have fold_raw."""
        self._check_rank(rank)
        seq = self.coll_seq[rank]
        self.coll_seq[rank] += 1
        blob = obj if raw else pickle.dumps(obj, protocol=pickle.HIGHEST_PROTOCOL)
        self.raw_collectives = raw
        self.coll_pending.setdefault(seq, {})[rank] = (name, blob, root, op)
        self.spin[rank] = 0
        self._ev("coll-enter", rank, seq, name, root)
        self._park(rank, ("coll", seq, name),
                   lambda: (seq, rank) in self.coll_results)
        res = self.coll_results.pop((seq, rank))
        if raw:
            return res
        return None if res is None else pickle.loads(res)

    # }}}

    # {{{ scheduler side

    def _complete_collectives(self):
        for seq in sorted(self.coll_pending):
            entries = self.coll_pending[seq]
            if len(entries) < self.n:
                continue
            names = sorted({(e[0], e[2]) for e in entries.values()})
            if len(names) != 1:
                self._kviolation(
                    "collective-mismatch",
                    f"seq {seq}: ranks entered different collectives {names}")
                # leave them blocked: this is what MPI would do (or worse)
                continue
            name, root = names[0]
            self.stats["collectives"] += 1
            self.coll_log.append((seq, name))
            res: dict = {}
            if name == "bcast":
                for r in range(self.n):
                    res[r] = entries[root][1]
            elif name == "gather" and getattr(self, "raw_collectives", False):
                for r in range(self.n):
                    res[r] = ("list", [entries[q][1] for q in range(self.n)]) \
                        if r == root else None
            elif name == "gather":
                objs = [pickle.loads(entries[q][1]) for q in range(self.n)]
                for r in range(self.n):
                    res[r] = pickle.dumps(objs) if r == root else None
            elif name == "allgather" and getattr(self, "raw_collectives", False):
                for r in range(self.n):
                    res[r] = ("list", [entries[q][1] for q in range(self.n)])
            elif name == "allgather":
                objs = [pickle.loads(entries[q][1]) for q in range(self.n)]
                for r in range(self.n):
                    res[r] = pickle.dumps(objs)
            elif name == "barrier":
                for r in range(self.n):
                    res[r] = None
            elif name == "allreduce" and getattr(self, "raw_collectives", False):
                # the op function lives in the ranks' interpreters: a seeded
                # rank folds two pickles at a time
                op0 = entries[0][3]
                order = list(range(self.n))
                if op0.commute and self.cfg["reduce_shuffle"] and self.n > 1:
                    pool = order[:]
                    order = []
                    while pool:
                        order.append(pool.pop(
                            self.ch.pick("reduce-order", pool)
                            if len(pool) > 1 else 0))
                    if order != sorted(order):
                        self.stats["reduce_shuffled"] += 1
                seqn = [entries[q][1] for q in order]
                while len(seqn) > 1:
                    j = (self.ch.pick("reduce-bracket", list(range(len(seqn) - 1)))
                         if len(seqn) > 2 and op0.commute
                         and self.cfg["reduce_shuffle"] else 0)
                    f = self.ch.pick("fold-rank", list(range(self.n))) \
                        if self.n > 1 else 0
                    seqn[j:j + 2] = [entries[f][3].fold_raw(seqn[j], seqn[j + 1])]
                for r in range(self.n):
                    res[r] = seqn[0]
                self._ev("allreduce-order", tuple(order))
            elif name == "allreduce":
                op = entries[0][3]
                items = [pickle.loads(entries[q][1]) for q in range(self.n)]
                order = list(range(self.n))
                if op.commute and self.cfg["reduce_shuffle"] and self.n > 1:
                    pool = order[:]
                    order = []
                    while pool:
                        order.append(pool.pop(
                            self.ch.pick("reduce-order", pool)
                            if len(pool) > 1 else 0))
                    if order != sorted(order):
                        self.stats["reduce_shuffled"] += 1
                    # random bracketing: repeatedly combine two adjacent items
                    seqn = [items[q] for q in order]
                    while len(seqn) > 1:
                        j = (self.ch.pick("reduce-bracket",
                                          list(range(len(seqn) - 1)))
                             if len(seqn) > 2 else 0)
                        seqn[j:j + 2] = [op.fn(seqn[j], seqn[j + 1], None)]
                    acc = seqn[0]
                else:
                    acc = items[0]
                    for q in order[1:]:
                        acc = op.fn(acc, items[q], None)
                blob = pickle.dumps(acc)
                for r in range(self.n):
                    res[r] = blob
                self._ev("allreduce-order", tuple(order))
            else:
                raise AssertionError(name)
            for r in range(self.n):
                self.coll_results[(seq, r)] = res[r]
            del self.coll_pending[seq]
            self._ev("coll-done", seq, name)

    def _match(self):
        # MPI matching without wildcards: per (src, dst, tag) channel, sends and
        # receives pair up in posting order (non-overtaking).
        for ch in self.channels:
            sq = self.send_q[ch]
            rq = self.recv_q[ch]
            while sq and rq:
                s = sq.pop(0)
                r = rq.pop(0)
                s.matched = r.matched = True
                mid = self._next_id()
                hold = 0
                if self.ch.flag("hold", self.cfg["hold_prob"]):
                    hold = self.ch.integer("hold-len", 1, self.cfg["hold_max"])
                    self.stats["held"] += 1
                    self.last_perturb_step = max(
                        self.last_perturb_step, self.step_no + hold)
                self.inflight.append(
                    {"mid": mid, "s": s, "r": r, "ready_at": self.step_no + hold})
                self._ev("match", s.id, r.id, mid, hold)

    def _deliver(self, m):
        s, r = m["s"], m["r"]
        if s.snapshot is not None:
            data = s.snapshot
        else:
            data = _memory_image(np.asarray(s.buf))   # late read of the buffer
            self.stats["late_read"] += 1
        tf = self.transport_fault
        if tf is not None and tf["nth"] == self.stats["delivers"]:
            self.stats["transport_faults"] += 1
            if tf["kind"] == "drop":
                self._ev("FAULT-drop", m["mid"])
                s.complete = True
                self.stats["delivers"] += 1
                return
            if tf["kind"] == "corrupt" and data.size:
                data = np.array(data, copy=True)
                data.reshape(-1).view(np.uint8)[0] ^= 0x40
                self._ev("FAULT-corrupt", m["mid"])
            if tf["kind"] == "swap":
                # deliver into the wrong posted receive of the same rank
                others = [q for q in self.inflight
                          if q["r"].rank == r.rank
                          and q["r"].buf.nbytes == r.buf.nbytes]
                if others:
                    o = others[0]
                    o["r"], m["r"] = m["r"], o["r"]
                    r = m["r"]
                    self._ev("FAULT-swap", m["mid"], o["mid"])
        if data.nbytes != r.buf.nbytes:
            self._kviolation(
                "message-size-mismatch",
                f"message {s.rank}->{r.rank} tag {s.tag}: {data.nbytes} bytes "
                f"sent, receive buffer has {r.buf.nbytes}")
            # MPI: truncation error / short receive.  Complete both so the run
            # goes on; the violation is already recorded.
            nb = min(data.nbytes, r.buf.nbytes)
            if nb:
                r.buf.reshape(-1).view(np.uint8)[:nb] = \
                    np.ascontiguousarray(data).reshape(-1).view(np.uint8)[:nb]
        elif data.nbytes:
            r.buf.reshape(-1).view(np.uint8)[...] = \
                np.ascontiguousarray(data).reshape(-1).view(np.uint8)
        r.complete = True
        self.stats["delivers"] += 1
        posted = self.recv_post_order.get(r.rank, [])
        if any(q < r.id and not self._req_complete_by_id.get(q, False)
               for q in posted):
            self.stats["recv_out_of_post_order"] += 1
        self._req_complete_by_id[r.id] = True
        if not s.complete:
            self.to_complete.append(s)
        self._ev("deliver", m["mid"], s.id, r.id)

    def _enabled(self):
        ev = []
        for r in range(self.n):
            if self.state[r] == "parked" and self.wake[r]():
                ev.append(("step", r))
        for m in self.inflight:
            if m["ready_at"] <= self.step_no:
                ev.append(("deliver", m["mid"]))
        for s in self.to_complete:
            ev.append(("scomplete", s.id))
        return ev

    def _choose_event(self, events):
        pol = self.cfg["policy"]
        labels = [list(e) for e in events]
        if len(events) == 1:
            return 0
        if pol == "enum":
            # partial-order reduction by hand: a rank step that is not a wake-up
            # from Wait/Waitsome (start, post-isend, post-irecv, return from a
            # collective) only adds posted operations; what the code under test
            # can observe is the set of completed requests at its next
            # Wait/Waitsome, which is decided by the branching below.  Such
            # steps are taken at once, lowest rank first, without branching.
            for i, e in enumerate(events):
                if e[0] == "step" and self.desc[e[1]][0] not in ("waitsome",
                                                                 "wait"):
                    return i
            return self.ch.pick("ev", labels)
        steps = [i for i, e in enumerate(events) if e[0] == "step"]
        nets = [i for i, e in enumerate(events) if e[0] != "step"]
        cand = None
        if pol == "early" and nets:
            cand = nets
        elif pol == "late" and steps:
            cand = steps
        elif pol == "lifo" and nets and self.ch.flag("lifo-net", 0.6):
            cand = [nets[-1]]
        elif pol == "starve":
            other = [i for i in range(len(events))
                     if events[i] != ("step", self.cfg["starved"])]
            if other:
                cand = other
        elif pol == "stall":
            live = [i for i in range(len(events))
                    if not (events[i][0] == "step"
                            and self.stall_until[events[i][1]] > self.step_no)]
            if live:
                cand = live
        elif pol == "pct":
            def pr(e):
                return self.prio[e[1] if e[0] == "step" else self.n]
            best = max(pr(e) for e in events)
            cand = [i for i, e in enumerate(events) if pr(e) == best]
        if cand is None:
            cand = list(range(len(events)))
        if len(cand) == 1:
            return cand[0]
        j = self.ch.pick("ev", [labels[i] for i in cand])
        return cand[j]

    def run(self, fns):
        """fns[r](comm) is rank r's program.  Returns the global outcome:
        "ok", "deadlock", "blocked", "step-limit"."""
        _SIM_STACK.append(self)
        threads = []
        try:
            for r in range(self.n):
                t = threading.Thread(target=self._rank_body, args=(r, fns[r]),
                                     name=f"simrank-{r}", daemon=True)
                t.start()
                threads.append(t)
                self.state[r] = "parked"
                self.wake[r] = _always
                self.desc[r] = ("start",)
            outcome = self._loop()
        finally:
            self.aborting = True
            for r in range(self.n):
                if self.state[r] == "parked":
                    self.rank_sem[r].release()
            for t in threads:
                t.join(timeout=10)
            _SIM_STACK.pop()
        self.outcome = outcome
        return outcome

    def _rank_body(self, r, fn):
        self.rank_sem[r].acquire()
        if self.aborting:
            self.state[r] = "aborted"
            return
        self.state[r] = "running"
        self.started[r] = True
        try:
            self.results[r] = fn(Comm(self, r))
            self.state[r] = "done"
        except _RankAbort:
            self.state[r] = "aborted"
            return
        except BaseException as e:  # noqa: BLE001
            import traceback
            self.errors[r] = e
            self.tracebacks[r] = traceback.format_exc()
            self.state[r] = "raised"
        self._ev("rank-exit", r, self.state[r])
        if self.state[r] == "done" and not all(self.started):
            self.stats["rank_finished_before_peer_started"] += 1
        self.sched_sem.release()

    def _loop(self):
        while True:
            if all(s in ("done", "raised") for s in self.state):
                return "ok"
            self._complete_collectives()
            self._match()
            events = self._enabled()
            if not events:
                pending = [m for m in self.inflight]
                if pending:
                    # discrete-event jump: nothing runnable, advance to the next
                    # held message
                    self.step_no = min(m["ready_at"] for m in pending)
                    self.stats["clock_jumps"] += 1
                    continue
                if any(s in ("done", "raised") for s in self.state):
                    return "blocked"
                return "deadlock"
            if self.stats["events"] >= self.max_steps:
                return "step-limit"
            if self.pct_points and self.stats["events"] == self.pct_points[0]:
                self.pct_points.pop(0)
                top = max(self.prio, key=lambda k: self.prio[k])
                self.prio[top] = min(self.prio.values()) - 1
                self.stats["pct_changes"] += 1
            if self.cfg["policy"] == "stall" and \
                    self.ch.flag("stall", self.cfg["stall_prob"]):
                victim = self.ch.integer("stall-rank", 0, self.n - 1)
                k = self.ch.integer("stall-len", 1, self.cfg["stall_max"])
                self.stall_until[victim] = self.step_no + k
                self.last_perturb_step = max(self.last_perturb_step,
                                             self.step_no + k)
                self.stats["stalls"] += 1
            i = self._choose_event(events)
            e = events[i]
            self.stats["events"] += 1
            self.step_no += 1
            if e[0] == "step":
                r = e[1]
                self.stats["rank_steps"] += 1
                self._ev("step", r)
                self.current = r
                self.rank_sem[r].release()
                self.sched_sem.acquire()
                self.current = None
            elif e[0] == "deliver":
                k = [j for j, m in enumerate(self.inflight) if m["mid"] == e[1]][0]
                m = self.inflight.pop(k)
                self._deliver(m)
            else:
                k = [j for j, s in enumerate(self.to_complete) if s.id == e[1]][0]
                s = self.to_complete.pop(k)
                s.complete = True
                self._ev("scomplete", s.id)

    # }}}

    # {{{ post-run history facts

    def final_status(self):
        """per rank: ("returned",) / ("raised", exc) / ("blocked", desc)"""
        out = []
        for r in range(self.n):
            if self.state[r] == "done":
                out.append(("returned",))
            elif self.state[r] == "raised":
                out.append(("raised", self.errors[r]))
            else:
                out.append(("blocked", self.desc[r]))
        return out

    def leftover(self):
        """exactly-once bookkeeping after a run"""
        unmatched_sends = sum(len(q) for q in self.send_q.values())
        unmatched_recvs = sum(len(q) for q in self.recv_q.values())
        unwaited = sum(1 for q in self.requests if not q.consumed)
        return {"unmatched_sends": unmatched_sends,
                "unmatched_recvs": unmatched_recvs,
                "undelivered": len(self.inflight),
                "unwaited_requests": unwaited}

    # }}}

# }}}


def _always():
    return True

# vim: foldmethod=marker
