"""RefEval: a NumPy interpreter for pytato expression graphs that shares no
code with pytato's lowering (lower_to_index_lambda), its code generators or its
mappers.  High-level nodes map to the NumPy function of the same name; an
IndexLambda is evaluated pointwise (vectorised over np.indices) by a small
pymbolic evaluator.

Used (a) as the *stub compute back end* that executes one partition part, and
(b) to cross-check the recipe-level NumPy oracle on the unpartitioned graphs.
"""
from __future__ import annotations

import itertools
import operator
import string

import numpy as np
from pymbolic.mapper.evaluator import EvaluationMapper

from pytato.array import (
    AdvancedIndexInContiguousAxes,
    AdvancedIndexInNoncontiguousAxes,
    Array,
    AxisPermutation,
    BasicIndex,
    Concatenate,
    DataWrapper,
    DictOfNamedArrays,
    Einsum,
    EinsumElementwiseAxis,
    IndexLambda,
    NamedArray,
    NormalizedSlice,
    Placeholder,
    Reshape,
    Roll,
    SizeParam,
    Stack,
)
from pytato.distributed.nodes import DistributedRecv, DistributedSendRefHolder
from pytato import reductions as red


class UnboundInput(KeyError):
    pass


class CommNodeInPart(AssertionError):
    pass


_C99 = {
    "abs": np.abs, "sqrt": np.sqrt, "sin": np.sin, "cos": np.cos, "tan": np.tan,
    "asin": np.arcsin, "acos": np.arccos, "atan": np.arctan, "sinh": np.sinh,
    "cosh": np.cosh, "tanh": np.tanh, "exp": np.exp, "log": np.log,
    "log10": np.log10, "isnan": np.isnan, "atan2": np.arctan2,
    "real": np.real, "imag": np.imag, "conj": np.conj,
    "fmax": np.fmax, "fmin": np.fmin, "floor": np.floor, "ceil": np.ceil,
    "sign": np.sign, "pow": np.power, "fabs": np.abs,
}

_CMP = {"==": operator.eq, "!=": operator.ne, "<": operator.lt,
        "<=": operator.le, ">": operator.gt, ">=": operator.ge}


class _ScalarEval(EvaluationMapper):
    def __init__(self, ctx, bindings):
        super().__init__(ctx)
        self.bindings = bindings

    def map_variable(self, expr):
        if expr.name in self.context:
            return self.context[expr.name]
        return self.bindings[expr.name]

    def map_subscript(self, expr):
        agg = np.asarray(self.rec(expr.aggregate))
        idx = tuple(np.asarray(self.rec(i)) for i in expr.index_tuple)
        if not idx:
            return agg
        idx = np.broadcast_arrays(*idx)
        return agg[tuple(i.astype(np.intp) for i in idx)]

    def map_call(self, expr):
        name = expr.function.name
        if name == "pytato.zero":
            return 0
        assert name.startswith("pytato.c99."), name
        return _C99[name[11:]](*[self.rec(p) for p in expr.parameters])

    def map_type_cast(self, expr):
        return np.asarray(self.rec(expr.inner_expr)).astype(expr.dtype)

    def map_if(self, expr):
        return np.where(self.rec(expr.condition), self.rec(expr.then),
                        self.rec(expr.else_))

    def map_comparison(self, expr):
        return _CMP[expr.operator](self.rec(expr.left), self.rec(expr.right))

    def map_logical_and(self, expr):
        r = True
        for c in expr.children:
            r = np.logical_and(r, self.rec(c))
        return r

    def map_logical_or(self, expr):
        r = False
        for c in expr.children:
            r = np.logical_or(r, self.rec(c))
        return r

    def map_logical_not(self, expr):
        return np.logical_not(self.rec(expr.child))

    def map_nan(self, expr):
        return np.nan

    def map_floor_div(self, expr):
        return np.floor_divide(self.rec(expr.numerator), self.rec(expr.denominator))

    def map_remainder(self, expr):
        return np.mod(self.rec(expr.numerator), self.rec(expr.denominator))

    def map_reduce(self, expr):
        names = list(expr.bounds)
        ranges = []
        for n in names:
            lo, hi = expr.bounds[n]
            ranges.append(range(int(self.rec(lo)), int(self.rec(hi))))
        op = expr.op
        acc = None
        for point in itertools.product(*ranges):
            sub = _ScalarEval({**self.context, **dict(zip(names, point))},
                              self.bindings)
            v = sub.rec(expr.inner_expr)
            if acc is None:
                acc = v
            elif isinstance(op, red.SumReductionOperation):
                acc = acc + v
            elif isinstance(op, red.ProductReductionOperation):
                acc = acc * v
            elif isinstance(op, red.MaxReductionOperation):
                acc = np.maximum(acc, v)
            elif isinstance(op, red.MinReductionOperation):
                acc = np.minimum(acc, v)
            elif isinstance(op, red.AllReductionOperation):
                acc = np.logical_and(acc, v)
            elif isinstance(op, red.AnyReductionOperation):
                acc = np.logical_or(acc, v)
            else:
                raise NotImplementedError(type(op).__name__)
        if acc is None:
            if isinstance(op, red.SumReductionOperation):
                return 0
            if isinstance(op, red.ProductReductionOperation):
                return 1
            if isinstance(op, red.AllReductionOperation):
                return True
            if isinstance(op, red.AnyReductionOperation):
                return False
            raise NotImplementedError("empty max/min reduction")
        return acc


class RefEvaluator:
    """``RefEvaluator(env, recv_resolver)(expr)``: *env* maps placeholder and
    size-parameter names to values; *recv_resolver(recv_node)* supplies the value
    of a DistributedRecv (``None``: a receive node is an error, as it must be
    inside a partition part)."""

    def __init__(self, env, recv_resolver=None, forbid_comm=False):
        self.env = env
        self.recv_resolver = recv_resolver
        self.forbid_comm = forbid_comm
        self.cache: dict = {}
        self.names_read: list = []

    def __call__(self, expr):
        if isinstance(expr, DictOfNamedArrays):
            return {k: self(expr._data[k]) for k in expr._data}
        key = id(expr)
        hit = self.cache.get(key)
        if hit is not None:
            return hit[1]
        res = self._eval(expr)
        res = np.asarray(res)
        if all(isinstance(s, (int, np.integer)) for s in expr.shape):
            if res.shape != tuple(expr.shape):
                res = np.broadcast_to(res, tuple(expr.shape))
        res = res.astype(expr.dtype, copy=False)
        self.cache[key] = (expr, res)     # keeps expr alive: id() stays unique
        return res

    def _shape(self, shape):
        return tuple(int(self(s)) if isinstance(s, Array) else int(s)
                     for s in shape)

    def _eval(self, expr):
        if isinstance(expr, (Placeholder, SizeParam)):
            try:
                v = self.env[expr.name]
            except KeyError:
                raise UnboundInput(expr.name) from None
            self.names_read.append(expr.name)
            return v
        if isinstance(expr, DataWrapper):
            return np.asarray(expr.data)
        if isinstance(expr, NamedArray):
            cont = expr._container
            if isinstance(cont, DictOfNamedArrays):
                return self(cont._data[expr.name])
            from pytato.function import Call
            from pytato.loopy import LoopyCall
            if isinstance(cont, Call):
                # evaluate the function body with its parameters bound
                sub = RefEvaluator({k: self(v) for k, v in cont.bindings.items()},
                                   None, forbid_comm=True)
                return sub(cont.function.returns[expr.name])
            if isinstance(cont, LoopyCall):
                # the harness's own kernels, by name (the kernel text itself is
                # executed for real only in the shadow runs)
                if cont.entrypoint == "twice" and expr.name == "out":
                    return 2 * self(cont.bindings["a"])
                raise NotImplementedError(f"loopy kernel {cont.entrypoint}")
            raise NotImplementedError(type(cont).__name__)
        if isinstance(expr, DistributedRecv):
            if self.forbid_comm:
                raise CommNodeInPart("DistributedRecv inside a part")
            if self.recv_resolver is None:
                raise UnboundInput("recv")
            return self.recv_resolver(expr)
        if isinstance(expr, DistributedSendRefHolder):
            if self.forbid_comm:
                raise CommNodeInPart("DistributedSendRefHolder inside a part")
            return self(expr.passthrough_data)
        if isinstance(expr, IndexLambda):
            shape = self._shape(expr.shape)
            bindings = {k: self(v) for k, v in expr.bindings.items()}
            if any(s == 0 for s in shape):
                return np.empty(shape, expr.dtype)
            grids = np.indices(shape, sparse=True) if shape else ()
            ctx = {f"_{i}": g for i, g in enumerate(grids)}
            with np.errstate(all="ignore"):
                val = _ScalarEval(ctx, bindings)(expr.expr)
            return np.broadcast_to(np.asarray(val), shape).astype(expr.dtype)
        if isinstance(expr, Stack):
            return np.stack([self(a) for a in expr.arrays], axis=expr.axis)
        if isinstance(expr, Concatenate):
            return np.concatenate([self(a) for a in expr.arrays], axis=expr.axis)
        if isinstance(expr, Roll):
            return np.roll(self(expr.array), expr.shift, expr.axis)
        if isinstance(expr, AxisPermutation):
            return np.transpose(self(expr.array), expr.axis_permutation)
        if isinstance(expr, Reshape):
            return np.reshape(self(expr.array), self._shape(expr.newshape),
                              order=expr.order)
        if isinstance(expr, (BasicIndex, AdvancedIndexInContiguousAxes,
                             AdvancedIndexInNoncontiguousAxes)):
            idx = []
            for i in expr.indices:
                if isinstance(i, NormalizedSlice):
                    start = int(self(i.start)) if isinstance(i.start, Array) \
                        else int(i.start)
                    stop = int(self(i.stop)) if isinstance(i.stop, Array) \
                        else int(i.stop)
                    idx.append(slice(start, None if stop < 0 else stop,
                                     int(i.step)))
                elif isinstance(i, Array):
                    idx.append(self(i))
                else:
                    idx.append(int(i))
            return self(expr.array)[tuple(idx)]
        if isinstance(expr, Einsum):
            letters: dict = {}

            def let(d):
                if d not in letters:
                    letters[d] = string.ascii_letters[len(letters)]
                return letters[d]
            ins = ["".join(let(d) for d in acc)
                   for acc in expr.access_descriptors]
            out = "".join(let(EinsumElementwiseAxis(i))
                          for i in range(expr.ndim))
            args = [self(a) for a in expr.args]
            axlen: dict = {}
            for acc, a in zip(expr.access_descriptors, args):
                for d, n in zip(acc, a.shape):
                    if axlen.get(d, 1) == 1:
                        axlen[d] = n
            args = [np.broadcast_to(a, tuple(axlen[d] for d in acc))
                    for acc, a in zip(expr.access_descriptors, args)]
            return np.einsum(",".join(ins) + "->" + out, *args)
        from pytato.array import CSRMatmul
        if isinstance(expr, CSRMatmul):
            m = expr.matrix
            vals = self(m.elem_values)
            cols = self(m.elem_col_indices)
            rows = self(m.row_starts)
            x = self(expr.array)
            out = np.zeros((len(rows) - 1, *x.shape[1:]),
                           dtype=np.result_type(vals.dtype, x.dtype))
            for i in range(len(rows) - 1):
                for k in range(int(rows[i]), int(rows[i + 1])):
                    out[i] = out[i] + vals[k] * x[int(cols[k])]
            return out
        raise NotImplementedError(type(expr).__name__)
