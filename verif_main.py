"""Entry point: ./check <property id> --tier quick|thorough [--replay FILE]"""
from __future__ import annotations

import argparse
import os
import sys

HERE = os.path.dirname(os.path.abspath(__file__))
sys.path.insert(0, HERE)

from simkit import driver  # noqa: E402


def main():
    ap = argparse.ArgumentParser()
    ap.add_argument("what")
    ap.add_argument("--tier", default=os.environ.get("VERIF_TIER", "quick"),
                    choices=["quick", "thorough"])
    ap.add_argument("--replay")
    ap.add_argument("--streams", type=int)
    ap.add_argument("--runs", type=int)
    ap.add_argument("--budget", type=float, help="seconds (thorough tier)")
    args = ap.parse_args()
    driver.reexec_deterministic()
    driver.private_tmpdir()
    what = args.what.upper() if args.what[0] in "cC" else args.what
    if what in ("C08", "C09", "C10"):
        import importlib
        from checks import e1main
        mod = importlib.import_module(f"checks.{what.lower()}")
        if args.replay:
            return e1main.run_replay(mod, args.replay)
        return e1main.run_check(mod, args.tier, streams=args.streams,
                                runs=args.runs, budget_s=args.budget)
    if what in ("C04", "C17", "C18"):
        import importlib
        mod = importlib.import_module(f"checks.{what.lower()}")
        if args.replay:
            return mod.run_replay(args.replay)
        return mod.run_check(args.tier, budget_s=args.budget)
    if what.startswith("selftest"):
        from checks import selftest
        return selftest.main(what, args)
    print(f"unknown check {args.what}", file=sys.stderr)
    return 2


if __name__ == "__main__":
    try:
        rc = main()
    except driver.HarnessError as e:
        print(f"HARNESS-ERROR: {e}", file=sys.stderr)
        rc = 2
    except Exception:  # noqa: BLE001
        # a crash of the harness is never a verdict about pytato
        import traceback
        traceback.print_exc()
        print("HARNESS-ERROR: the check itself crashed", file=sys.stderr)
        rc = 2
    sys.stdout.flush()
    sys.exit(rc)
