"""What a fleet worker emits per recipe for C17: text records produced by the
harness's canonical printer (never repr of sets), compared byte for byte across
interpreters."""
from __future__ import annotations

import hashlib
import random

import numpy as np

from . import mrecipe, simmpi, srecipe
from .walker import Canon


def _h(text: str) -> str:
    return hashlib.sha256(text.encode()).hexdigest()[:20]


def _numpy_target():
    from pytato.target.python import BoundPythonProgram, NumpyLikePythonTarget

    class NumpyTarget(NumpyLikePythonTarget):
        @property
        def numpy_like_module_name(self):
            return "numpy"

        @property
        def numpy_like_module_name_shorthand(self):
            return "_pt_np"

        def bind_program(self, program, entrypoint, expected_arguments,
                         bound_arguments):
            return BoundPythonProgram(
                target=self, program=program, entrypoint=entrypoint,
                expected_arguments=expected_arguments,
                bound_arguments=bound_arguments)
    return NumpyTarget()


def dump_kernel(t_unit) -> str:
    """canonical dump of a loopy TranslationUnit (ordered things in order,
    set-valued things sorted)"""
    import loopy as lp
    lines = []
    for name in sorted(t_unit.callables_table):
        clbl = t_unit.callables_table[name]
        if not isinstance(clbl, lp.CallableKernel):
            lines.append(f"callable {name}: {type(clbl).__name__}")
            continue
        k = clbl.subkernel
        lines.append(f"kernel {k.name}")
        for a in k.args:
            lines.append(
                f"  arg {a.name} {type(a).__name__} dtype={getattr(a, 'dtype', None)} "
                f"shape={getattr(a, 'shape', None)} "
                f"in={getattr(a, 'is_input', None)} out={getattr(a, 'is_output', None)} "
                f"tags={sorted(Canon().ref(t) for t in (getattr(a, 'tags', None) or ()))}")
        for tn in sorted(k.temporary_variables):
            tv = k.temporary_variables[tn]
            lines.append(f"  temp {tn} dtype={tv.dtype} shape={tv.shape} "
                         f"aspace={tv.address_space} "
                         f"tags={sorted(Canon().ref(t) for t in (tv.tags or ()))}")
        for d in k.domains:
            lines.append(f"  domain {d}")
        for insn in k.instructions:
            # (not str(insn): it prints depends_on in frozenset order)
            if isinstance(insn, lp.Assignment):
                body = f"{insn.assignee} <- {insn.expression}"
            elif isinstance(insn, lp.CallInstruction):
                body = f"{insn.assignees} <- {insn.expression}"
            else:
                body = type(insn).__name__
            lines.append(
                f"  insn {insn.id}: {body} || deps={sorted(insn.depends_on)} "
                f"within={sorted(insn.within_inames)} "
                f"preds={sorted(str(p) for p in insn.predicates)}")
        for iname in sorted(k.inames):
            tags = sorted(Canon().ref(t) for t in k.inames[iname].tags)
            if tags:
                lines.append(f"  iname {iname} tags={tags}")
        for sn in sorted(k.substitutions):
            lines.append(f"  subst {k.substitutions[sn]}")
    return "\n".join(lines)


def single_record(recipe, with_c_target=False):
    """records (a)-(d) of DESIGN C17 for a single-rank recipe"""
    import loopy as lp
    import pytato as pt
    from loopy.tools import LoopyKeyBuilder
    rec = {}
    _vals, out = srecipe.build(recipe)
    if not isinstance(out, pt.DictOfNamedArrays):
        out = pt.make_dict_of_named_arrays({"_out": out})
    try:
        o = pt.tag_all_calls_to_be_inlined(out)
        o = pt.transform.deduplicate(o)
    except Exception as e:  # noqa: BLE001
        return {"prep": "ERR " + type(e).__name__}
    try:
        bp = pt.generate_loopy(o)
    except Exception as e:  # noqa: BLE001
        rec["loopy"] = "ERR " + type(e).__name__
    else:
        t_unit = bp.program
        rec["loopy_key"] = LoopyKeyBuilder()(t_unit)
        rec["loopy_dump"] = dump_kernel(t_unit)
        rec["bound_args"] = list(bp.bound_arguments)
        try:
            rec["opencl_code"] = lp.generate_code_v2(t_unit).device_code()
        except Exception as e:  # noqa: BLE001
            rec["opencl_code"] = "ERR " + type(e).__name__
        if with_c_target:
            try:
                tc = t_unit.copy(target=lp.CTarget())
                rec["c_code"] = lp.generate_code_v2(tc).device_code()
            except Exception as e:  # noqa: BLE001
                rec["c_code"] = "ERR " + type(e).__name__
    try:
        from pytato.target.python.numpy_like import generate_numpy_like
        pp = generate_numpy_like(o, target=_numpy_target(),
                                 function_name="_pt_kernel", show_code=False,
                                 entrypoint_decorators=(), extra_preambles=())
        rec["python_source"] = pp.program
        rec["python_bound"] = list(pp.bound_arguments)
    except Exception as e:  # noqa: BLE001
        rec["python_source"] = "ERR " + type(e).__name__
    return rec


def _part_text(partition, numbered, next_tag):
    c = Canon("content")
    lines = []
    for (pid, part), (pid2, npart) in zip(partition.parts.items(),
                                          numbered.parts.items()):
        lines.append(f"part {pid}/{pid2} needed={sorted(part.needed_pids)} "
                     f"user_in={sorted(part.user_input_names)} "
                     f"part_in={sorted(part.partition_input_names)} "
                     f"out={sorted(part.output_names)}")
        for (name, r), (name2, r2) in zip(part.name_to_recv_node.items(),
                                          npart.name_to_recv_node.items()):
            lines.append(f"  recv {name}/{name2} src={r.src_rank} "
                         f"tag={c.ref(r.comm_tag)} -> {r2.comm_tag} "
                         f"shape={r.shape} dtype={r.dtype}")
        for (name, ss), (name2, ss2) in zip(part.name_to_send_nodes.items(),
                                            npart.name_to_send_nodes.items()):
            for s, s2 in zip(ss, ss2):
                lines.append(f"  send {name}/{name2} dest={s.dest_rank} "
                             f"tag={c.ref(s.comm_tag)} -> {s2.comm_tag}")
    for name, expr in partition.name_to_output.items():
        lines.append(f"output {name} = {_h(Canon('content').text(expr))}")
    lines.append(f"overall {list(partition.overall_output_names)}")
    lines.append(f"next_tag {next_tag}")
    return "\n".join(lines)


def multi_record(recipe, sim_seed, with_codegen=False, fixed=False):
    """records (e),(f): per simulated rank the partition in iteration order and
    the tag numbering.  The SimMPI seed is the same in every interpreter."""
    import pytato as pt
    from . import distrun  # noqa: F401  (installs the fake mpi4py)
    n = recipe["nranks"]
    npvals = mrecipe.evaluate_recipe(recipe)
    dags = [mrecipe.build_rank(recipe, r, npvals) for r in range(n)]
    out = [None] * n
    code = [None] * n

    def rank_fn(r):
        def fn(comm):
            part = pt.find_distributed_partition(comm, dags[r])
            npart, next_tag = pt.number_distributed_tags(comm, part, base_tag=4242)
            out[r] = _part_text(part, npart, next_tag)
            if with_codegen:
                from pytato.distributed.execute import generate_code_for_partition
                import loopy as lp
                from loopy.tools import LoopyKeyBuilder
                try:
                    prgs = generate_code_for_partition(npart)
                    code[r] = "\n".join(
                        f"== part {pid!r} key "
                        f"{LoopyKeyBuilder()(prgs[pid].program)}\n"
                        + dump_kernel(prgs[pid].program) for pid in prgs)
                except Exception as e:  # noqa: BLE001
                    code[r] = "ERR " + type(e).__name__
            return True
        return fn
    rng = random.Random(f"c17-sim:{sim_seed}")
    if fixed:
        # plain left fold in rank order, lowest rank first: what the
        # process-actor world of the same recipe is run with
        cfg = dict(simmpi.DEFAULT_CONFIG)
    else:
        cfg = simmpi.draw_config(rng, n)
    sim = simmpi.Sim(n, simmpi.Chooser(rng), cfg)
    sim.run([rank_fn(r) for r in range(n)])
    rec = {}
    for r in range(n):
        st = sim.final_status()[r]
        rec[f"rank{r}"] = out[r] if st[0] == "returned" else \
            f"{st[0]} {type(st[1]).__name__ if st[0] == 'raised' else ''}"
        if with_codegen:
            rec[f"rank{r}_code"] = code[r]
    return rec


def _alt_programs(family):
    """(valid program P, same-shaped rival Q) over symbolic shapes; Q may be
    ill-formed (pytato refuses it): it is only built and thrown away"""
    import pytato as pt
    n = pt.make_size_param("n")
    x = pt.make_placeholder("x", (n,), np.float64)
    y = pt.make_placeholder("y", (n,), np.float64)
    z = pt.make_placeholder("z", (n, 3), np.float64)
    # (pytato supports strided whole-axis slices of symbolic axes only)
    if family == 0:
        return (lambda: x[::2] + y[::2]), (lambda: x[::2] + y[::3])
    if family == 1:
        return (lambda: z[::2] * z[::2] + 1), (lambda: z[::2] * z[::3] + 1)
    if family == 2:
        return (lambda: (x[::2] - y[::2]) * x[::2]), \
            (lambda: (x[::2] - y[::3]) * x[::2])
    return (lambda: pt.where(pt.greater(x[::3], y[::3]), x[::3], y[::3])), \
        (lambda: pt.where(pt.greater(x[::3], y[::2]), x[::3], y[::3]))


def alternation_record(family, rounds):
    """The text generated for a FIXED program, regenerated `rounds` times while
    same-shaped rival graphs over the same symbolic shapes are built and thrown
    away in between (so that object addresses are recycled): every text must
    be the first text.  Python target every round (cheap), loopy every 25th."""
    import pytato as pt
    from pytato.target.python.numpy_like import generate_numpy_like
    mk_p, mk_q = _alt_programs(family)

    def text(with_loopy):
        out = pt.transform.deduplicate(
            pt.make_dict_of_named_arrays({"out": mk_p()}))
        t = generate_numpy_like(out, target=_numpy_target(),
                                function_name="_pt_kernel", show_code=False,
                                entrypoint_decorators=(),
                                extra_preambles=()).program
        if with_loopy:
            t += "\n" + dump_kernel(pt.generate_loopy(out).program)
        return t
    try:
        first_py = text(False)
        first_lp = text(True)
    except Exception as e:  # noqa: BLE001
        return {"alt": "ERR baseline " + type(e).__name__}
    rec = {"alt_first": hashlib.sha256(first_lp.encode()).hexdigest()[:16],
           "alt": "stable"}
    for t in range(rounds):
        try:
            q = mk_q()
            del q
        except Exception:  # noqa: BLE001
            pass
        try:
            with_lp = t % 25 == 24
            now = text(with_lp)
        except Exception as e:  # noqa: BLE001
            rec["alt"] = f"round {t}: {type(e).__name__} instead of the text"
            break
        if now != (first_lp if with_lp else first_py):
            rec["alt"] = f"round {t}: another text"
            break
    return rec


def fingerprint():
    """how this interpreter differs from its siblings: iteration orders of probe
    sets and the addresses of fresh objects"""
    import pytato as pt
    from .mrecipe import TagA, TagB, TagC
    strs = {"alpha", "beta", "gamma", "delta", "_pt_dist_0", "out0", "in0_0", "x"}
    classes = {TagA, TagB, TagC, int, float, pt.Placeholder, pt.IndexLambda}
    dws = [pt.make_data_wrapper(np.zeros(2)) for _ in range(4)]
    tags = {("a", 1), ("b", frozenset(["q", "r"])), (TagA, 2), "t", 7}
    return {
        "str_order": list(strs),
        "class_order": [c.__name__ for c in classes],
        "dw_order": [dws.index(d) for d in set(dws)],
        "tag_order": [Canon().ref(t) for t in tags],
        "ids": [hex(id(object())), hex(id(pt.Placeholder)), hex(id(TagA))],
        "debug": __debug__,
    }


def set_order_probe(recipe):
    """iteration order of a plain frozenset of arrays built by pytato
    (InputGatherer): free to differ between interpreters; used only to show
    that the fleet members do differ where pytato uses plain sets."""
    import pytato as pt
    from pytato.transform import InputGatherer
    _vals, out = srecipe.build(recipe)
    if not isinstance(out, pt.DictOfNamedArrays):
        out = pt.make_dict_of_named_arrays({"_out": out})
    try:
        o = pt.transform.deduplicate(out)
        return [getattr(x, "name", None) or type(x).__name__
                for x in InputGatherer()(o)]
    except Exception:  # noqa: BLE001
        return None
