"""Sensitivity self-test: hand-written breakages of pytato, applied to a scratch
copy of /repo/pytato (never to /repo), each of which the named check must
report within its quick budget.

Each mutant: id, property, file (relative to the pytato package), old, new.
"""
from __future__ import annotations

MUTANTS = [
    # ---- C08 ------------------------------------------------------------
    dict(id="c08-completion-loop-not-reversed", prop="C08",
         file="distributed/execute.py",
         old="for idx in sorted(complete_recv_indices, reverse=True):",
         new="for idx in sorted(complete_recv_indices):",
         needs="a Waitsome call that reports two or more completions"),
    dict(id="c08-readiness-ignores-receives", prop="C08",
         file="distributed/execute.py",
         old="""                if partition.parts[pid].needed_pids <= pids_executed
                and (set(partition.parts[pid].name_to_recv_node)
                    <= recv_names_completed)}""",
         new="""                if partition.parts[pid].needed_pids <= pids_executed}""",
         needs="a part scheduled before its receive completes"),
    dict(id="c08-release-early", prop="C08",
         file="distributed/execute.py",
         old="                if partition_input_names_refcount[p] == 0:",
         new="                if partition_input_names_refcount[p] <= 1:",
         needs="a name read by two parts"),
    dict(id="c08-send-wait-dropped", prop="C08",
         file="distributed/execute.py",
         old="""    for send_req in send_requests:
        send_req.Wait()
""",
         new="""    for send_req in send_requests[:-1]:
        send_req.Wait()
""",
         needs="exactly-once accounting: a send request never waited on"),
    dict(id="c08-materialized-all-last-part", prop="C08",
         file="distributed/partition.py",
         old="""            ary: min(
                mso_ary_to_first_dep_send_part_id[ary],
                nparts-1)
            for ary in mso_arrays}""",
         new="""            ary: nparts-1
            for ary in mso_arrays}""",
         needs="a stored array that a send in an earlier part depends on"),
    dict(id="c08-recv-into-same-part-as-batch", prop="C08",
         file="distributed/partition.py",
         old="""            if recv_ids or send_ids:
                part_comm_ids.append(
                    _PartCommIDs(
                        recv_ids=recv_ids,
                        send_ids=send_ids))
            # These go into the next part
            recv_ids = FrozenOrderedSet(
                comm_id for comm_id in batch
                if comm_id.dest_rank == local_rank)""",
         new="""            recv_ids = recv_ids | FrozenOrderedSet(
                comm_id for comm_id in batch
                if comm_id.dest_rank == local_rank)
            if recv_ids or send_ids:
                part_comm_ids.append(
                    _PartCommIDs(
                        recv_ids=recv_ids,
                        send_ids=send_ids))
            recv_ids = FrozenOrderedSet()""",
         needs="a part that both receives and sends in the same round with a "
               "peer doing the converse (deadlock / cyclic part graph)"),
    dict(id="c08-part-programs-rotated", prop="C08",
         file="distributed/execute.py",
         old="""    return part_id_to_prg
""",
         new="""    pids = sorted(part_id_to_prg)
    if len(pids) >= 3:
        part_id_to_prg = {pid: part_id_to_prg[pids[(i + 1) % len(pids)]]
                          for i, pid in enumerate(pids)}
    return part_id_to_prg
""",
         needs="three or more parts on a rank and real code generation: the "
               "program registered for a part is another part's program"),
    dict(id="c08-tag-numbering-local", prop="C08",
         file="distributed/tags.py",
         old="        for sym_tag in flatten(all_tags):",
         new="        for sym_tag in sorted(flatten(all_tags), key=repr)[::-1]:",
         expect="pass",
         needs="(control) any consistent numbering is fine: must NOT be flagged"),
    # ---- C09 ------------------------------------------------------------
    dict(id="c09-tags-numbered-per-rank", prop="C09",
         file="distributed/tags.py",
         old="""    all_tags = cast("list[tuple[CommTagType, ...]]",
                    mpi_communicator.gather(tags, root=root_rank))
""",
         new="""    all_tags = cast("list[tuple[CommTagType, ...]]",
                    mpi_communicator.gather(tags, root=root_rank))
    if True:
        sym_tag_to_int_tag = {}
        next_tag = base_tag
        for sym_tag in tags:
            if sym_tag not in sym_tag_to_int_tag:
                sym_tag_to_int_tag[sym_tag] = next_tag
                next_tag += 1
        _local = (sym_tag_to_int_tag, next_tag)
""",
         new2=("""        sym_tag_to_int_tag, next_tag = mpi_communicator.bcast(None, root=root_rank)
""", """        sym_tag_to_int_tag, next_tag = mpi_communicator.bcast(None, root=root_rank)
        sym_tag_to_int_tag, next_tag = _local
"""),
         needs="two ranks whose local tag orders differ"),
    dict(id="c09-tags-numbered-from-set-on-every-rank", prop="C09",
         file="distributed/tags.py",
         old="""    if mpi_communicator.rank == root_rank:
        sym_tag_to_int_tag = {}""",
         new="""    all_tags = mpi_communicator.bcast(all_tags, root=root_rank)
    if True:
        sym_tag_to_int_tag = {}
        next_tag = base_tag
        for sym_tag in set(flatten(all_tags)):
            if sym_tag not in sym_tag_to_int_tag:
                sym_tag_to_int_tag[sym_tag] = next_tag
                next_tag += 1
        _mine = (sym_tag_to_int_tag, next_tag)
    if mpi_communicator.rank == root_rank:
        sym_tag_to_int_tag = {}""",
         new2=("""    from dataclasses import replace
    return DistributedGraphPartition(""",
               """    sym_tag_to_int_tag, next_tag = _mine
    from dataclasses import replace
    return DistributedGraphPartition("""),
         needs="ranks running in interpreters with DIFFERENT hash seeds: every "
               "rank numbers the same broadcast tag list through its own set "
               "order (consistent when all ranks share one interpreter)"),
    dict(id="c09-next-tag-off-by-one-on-root", prop="C09",
         file="distributed/tags.py",
         old="        mpi_communicator.bcast((sym_tag_to_int_tag, next_tag), root=root_rank)",
         new="        mpi_communicator.bcast((sym_tag_to_int_tag, next_tag), root=root_rank)\n"
             "        next_tag += 1 if len(sym_tag_to_int_tag) > 3 else 0",
         needs="more than three symbolic tags; ranks disagree on next_tag"),
    dict(id="c09-partition-input-names-dropped", prop="C09",
         file="distributed/partition.py",
         old="""                partition_input_names=frozenset(
                    comm_replacer.partition_input_name_to_placeholder.keys()),""",
         new="""                partition_input_names=frozenset(
                    sorted(comm_replacer.partition_input_name_to_placeholder.keys())[:2]),""",
         needs="a part with three or more partition inputs"),
    dict(id="c09-recv-left-in-part", prop="C09",
         file="distributed/partition.py",
         old="""        name = self.recvd_ary_to_name[expr]
        return self._get_placeholder_for(name, expr)""",
         new="""        name = self.recvd_ary_to_name[expr]
        if expr.tags and len(expr.shape) == 2:
            return expr
        return self._get_placeholder_for(name, expr)""",
         needs="a stored 2-d receive: a DistributedRecv stays inside a part"),
    dict(id="c09-needed-pids-skip", prop="C09",
         file="distributed/partition.py",
         old="                needed_pids=frozenset({part_id - 1} if part_id else {}),",
         new="                needed_pids=frozenset({part_id - 1} if part_id == 1 else {}),",
         needs="three or more parts: a part reads names of parts it does not "
               "declare as needed"),
    dict(id="c09-sent-name-unpromoted-when-also-output", prop="C09",
         file="distributed/partition.py",
         old="""        sent_ary_to_name[ary] = name
        name_to_output_per_part[pid][name] = ary""",
         new="""        sent_ary_to_name[ary] = name
        if ary not in output_arrays or len(sent_arrays) < 3:
            name_to_output_per_part[pid][name] = ary""",
         needs="three sends on a rank, one of whose payloads is also an "
               "overall output"),
    dict(id="c09-batches-not-broadcast", prop="C09",
         file="distributed/partition.py",
         old="""        comm_batches = comm_batches_or_exc
""",
         new="""        comm_batches = _schedule_task_batches(dict(reversed(list(
            comm_ids_to_needed_comm_ids.items()))))
""",
         expect="pass",
         needs="(control) batches recomputed locally from the same graph in "
               "another key order: the levels are identical, must NOT be flagged"),
    # ---- C10 ------------------------------------------------------------
    dict(id="c10-duplicate-recv-check-removed", prop="C10",
         file="distributed/partition.py",
         old="        if recv_id in self.local_recv_id_to_recv_node:",
         new="        if False and recv_id in self.local_recv_id_to_recv_node:",
         needs="a duplicated receive"),
    dict(id="c10-duplicate-send-only-same-data", prop="C10",
         file="distributed/partition.py",
         old="        if send_id in self.local_send_id_to_send_node:",
         new="        if send_id in self.local_send_id_to_send_node and "
             "self.local_send_id_to_send_node[send_id].data.shape != ():",
         needs="a duplicated send of a 0-d payload"),
    dict(id="c10-cycle-exception-not-broadcast", prop="C10",
         file="distributed/partition.py",
         old="""        except Exception as exc:
            mpi_communicator.bcast(exc)
            raise""",
         new="""        except Exception as exc:
            raise""",
         needs="a cross-rank dependency cycle"),
    dict(id="c10-missing-endpoint-check-removed", prop="C10",
         file="distributed/partition.py",
         old="""                if recv_id not in lsrdg.local_recv_id_to_recv_node:
                    raise MissingRecvError(f"no receive for '{recv_id}'")""",
         new="""                if False:
                    raise MissingRecvError(f"no receive for '{recv_id}'")""",
         needs="a dropped / retagged / redirected receive"),
    dict(id="c10-self-send-allowed-for-str-tags", prop="C10",
         file="distributed/partition.py",
         old="    if local_rank == send.dest_rank:",
         new="    if local_rank == send.dest_rank and not isinstance(send.comm_tag, str):",
         new2=("    if local_rank == recv.src_rank:",
               "    if local_rank == recv.src_rank and not isinstance(recv.comm_tag, str):"),
         needs="a matched message from a rank to itself with a string tag "
               "(a lone self-send is still caught as a missing receive)"),
    dict(id="c10-cycle-check-skips-two-cycles", prop="C10",
         file="distributed/partition.py",
         old="""        if task_id in seen:
            raise CycleError("Cycle detected in your input graph.")""",
         new="""        if task_id in seen:
            if len(task_ids_to_needed_task_ids) > 3:
                raise CycleError("Cycle detected in your input graph.")
            return 0""",
         needs="a cycle in a program with at most three communication ops"),
    # ---- C04 ------------------------------------------------------------
    dict(id="c04-getstate-keeps-hash-cache", prop="C04",
         file="array.py",
         old="""            cls.__getstate__ = _dataclass_getstate
            cls.__setstate__ = _dataclass_setstate
""",
         new="""            pass
""",
         needs="hash() before pickle, unpickle under another hash seed"),
    dict(id="c04-roll-shift-ignored", prop="C04",
         file="equality.py",
         old="""        return (expr1.axis == expr2.axis
                and expr1.shift == expr2.shift
                and self.rec(expr1.array, expr2.array)""",
         new="""        return (expr1.axis == expr2.axis
                and self.rec(expr1.array, expr2.array)""",
         needs="two rolls differing only in shift"),
    dict(id="c04-dict-hash-order-dependent", prop="C04",
         file="array.py",
         old="        return hash((frozenset(self._data.items()), self.tags))",
         new="        return hash((tuple(self._data.items()), self.tags))",
         needs="two equal DictOfNamedArrays with different insertion order"),
    dict(id="c04-einsum-redn-descr-ignored", prop="C04",
         file="equality.py",
         old="""                and expr1.redn_axis_to_redn_descr == expr2.redn_axis_to_redn_descr
                )""",
         new="""                )""",
         needs="two einsums differing only in a reduction-descriptor tag"),
    dict(id="c04-eq-cache-keyed-one-sided", prop="C04",
         file="equality.py",
         old="        cache_key = id(expr1), id(expr2)",
         new="        cache_key = id(expr1), id(expr2.__class__)",
         needs="one node compared against two different nodes of the same "
               "class within one comparison (sharing)"),
    # ---- C17 ------------------------------------------------------------
    dict(id="c17-sent-arrays-plain-frozenset", prop="C17",
         file="distributed/partition.py",
         old="""    sent_arrays = FrozenOrderedSet(
        send_node.data for send_node in lsrdg.local_send_id_to_send_node.values())""",
         new="""    sent_arrays = frozenset(
        send_node.data for send_node in lsrdg.local_send_id_to_send_node.values())""",
         needs="a rank sending two or more different arrays: the generated "
               "names follow set order"),
    dict(id="c17-tags-numbered-through-set", prop="C17",
         file="distributed/tags.py",
         old="        for sym_tag in flatten(all_tags):",
         new="        for sym_tag in set(flatten(all_tags)):",
         needs="two or more symbolic tags"),
    dict(id="c17-part-outputs-frozenset-order", prop="C17",
         file="distributed/execute.py",
         old="                        for var_name in sorted(part.output_names)",
         new="                        for var_name in part.output_names",
         needs="a part with two or more outputs, real code generation"),
    dict(id="c17-python-kwargs-set-order", prop="C17",
         file="target/python/numpy_like.py",
         old="                                  for name in sorted(cgen_mapper.arg_names)],",
         new="                                  for name in cgen_mapper.arg_names],",
         needs="a program with two or more inputs, Python target"),
    dict(id="c17-output-order-unkeyed-toposort", prop="C17",
         file="codegen.py",
         old="    output_order: list[str] = compute_topological_order(dag, key=lambda x: x)[::-1]",
         new="    output_order: list[str] = compute_topological_order(dag)[::-1]",
         expect="either",
         needs="several independent outputs (dict order decides; may be "
               "equivalent if the dict order is itself deterministic)"),
    dict(id="c17-materialized-arrays-id-sorted", prop="C17",
         file="distributed/partition.py",
         old="""    stored_arrays = FrozenOrderedSet(stored_ary_to_part_id)""",
         new="""    stored_arrays = FrozenOrderedSet(
        sorted(stored_ary_to_part_id, key=id))""",
         needs="several stored arrays promoted to part outputs: names follow "
               "object addresses (allocation history)"),
    # ---- C18 ------------------------------------------------------------
    dict(id="c18-ndarray-key-bytes-only", prop="C18",
         file="analysis/__init__.py",
         old="""        self.rec(key_hash, key.dtype)
        self.rec(key_hash, key.shape)
        self.rec(key_hash, key.data.tobytes())""",
         new="""        self.rec(key_hash, key.data.tobytes())""",
         # (since /repo 59a1ae7 the DataWrapper feeds the dtype as well: the
         # original defect is both sites together)
         new2=("""        self.rec(key_hash, key.dtype)
        self.update_for_dataclass(key_hash, key)""",
               """        self.update_for_dataclass(key_hash, key)"""),
         needs="wrapped data with identical bytes and another dtype"),
    dict(id="c18-ndarray-key-via-python-hash", prop="C18",
         file="analysis/__init__.py",
         old="""        self.rec(key_hash, key.data.tobytes())""",
         new="""        self.rec(key_hash, hash(key.data.tobytes()))""",
         needs="a data wrapper keyed in two interpreters with different hash "
               "seeds"),
    dict(id="c18-reduction-op-key-by-hash", prop="C18",
         file="reductions.py",
         old="        key_builder.rec(key_hash, type(self))",
         new="        key_builder.rec(key_hash, hash(type(self).__name__))",
         needs="a reduction keyed in two interpreters with different hash seeds"),
    dict(id="c18-axis-key-ignores-tags", prop="C18",
         file="array.py",
         old="""class Axis(Taggable):""",
         new="""class Axis(Taggable):
    def update_persistent_hash(self, key_hash, key_builder):
        key_builder.rec(key_hash, type(self).__name__)
""",
         needs="two graphs differing only in an axis tag"),
]
