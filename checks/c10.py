"""C10 -- mismatched or cyclic communication is diagnosed, never partitioned.
Engine E1 (SimMPI) + program-level fault operators.

For each sampled valid multi-rank recipe: the fault-free run, EVERY single
fault (10 endpoint faults + close-cycle) at EVERY live communication operation
(enumerated, not sampled), and seeded pairs of faults.  All ranks execute
find_distributed_partition then verify_distributed_partition on SimMPI under a
seeded schedule.  The expectation comes from the communication model
(simkit/commmodel.py) computed on the built graphs, not from the fault list, so
faults that cancel are expected to succeed."""
from __future__ import annotations

import collections
import copy
import hashlib
import json
import random
import time

from checks.known import match_known
from simkit import (commmodel, distrun, driver, e1, mrecipe, partcheck, ptamper,
                    simmpi)

PROP = "C10"
LEVEL = "fault_enumeration"

TIERS = {
    "quick": {"streams": 64, "runs": 24, "pairs": 8, "budget_s": None,
              "codegen_every": 0, "proc_groups": 3, "proc_progs": 150,
              "proc_faults": 5, "tampers": 6},
    "thorough": {"streams": 4000, "runs": 12, "pairs": 30, "budget_s": 15 * 60,
                 "codegen_every": 0, "proc_groups": 100, "proc_progs": 400,
                 "proc_faults": 8, "tampers": 16},
}

RULE = ("one evaluation = one simulated multi-rank run of "
        "find_distributed_partition + verify_distributed_partition on a recipe "
        "with zero, one or two injected communication faults; for every "
        "sampled valid recipe ALL single faults (drop/duplicate/retag/redirect/"
        "self on the send and on the receive side, close-cycle) at ALL live "
        "communication operations are enumerated; distinct = distinct (recipe "
        "digest, fault list) pairs; non-trivial = the communication model "
        "classifies the faulted program as ill-formed")

ASSUMPTIONS = [
    "the communication model (reflective walk of the built graphs: endpoint "
    "multisets per (src, dst, tag), self-communication, data-flow dependency "
    "cycle among communication operations) is the definition of well-formed",
    "a diagnostic is any exception that is not a bare KeyError / IndexError / "
    "AttributeError / TypeError / NameError / RecursionError / AssertionError "
    "(PartitionInducedCycleError excepted); on this tree the diagnostics are "
    "DistributedPartitionVerificationError and subclasses, NotImplementedError "
    "(self send/receive), pytools.graph.CycleError, PartitionInducedCycleError",
    "affected ranks of a defect = owner of the offending endpoint and the peer "
    "it names; at least one affected rank must raise a diagnostic, no rank "
    "may raise anything outside the family, not every rank may return",
    "SimMPI reports a rank that waits in a collective a peer will never enter "
    "as blocked-forever instead of hanging",
    "process-actor groups in which some interpreter runs with python -O (the "
    "diagnostics pytato keeps under `if __debug__:` are compiled away there) "
    "are held to the safety half only: no partition for an ill-formed "
    "program, no valid program rejected, no hang",
]

EXPECTED_PROBES = ()


FAMILY_NAMES = {"DistributedPartitionVerificationError", "NotImplementedError",
                "CycleError", "PartitionInducedCycleError"}
CRASH_NAMES = {"KeyError", "IndexError", "AttributeError", "TypeError",
               "NameError", "RecursionError", "ZeroDivisionError",
               "StopIteration", "SimProtocolError"}


class ExcInfo:
    """an exception raised by a rank, possibly in another interpreter: known by
    the names of its classes"""

    def __init__(self, names, text, tname):
        self.names = set(names)
        self.text = text
        self.tname = tname

    @staticmethod
    def of(e):
        if isinstance(e, ExcInfo):
            return e
        if isinstance(e, dict):
            return ExcInfo(e["mro"], f"{e['type']}({e['msg']!r})", e["type"])
        return ExcInfo([c.__name__ for c in type(e).__mro__], f"{e!r}"[:300],
                       type(e).__name__)


# Exception types that mean "the code fell over" rather than "the code told
# the user what is wrong".  Anything else (in particular new error classes a
# refactor may introduce) counts as a diagnostic.
def _is_crash(x):
    if x.names & FAMILY_NAMES:
        return False
    if "AssertionError" in x.names:
        return True
    return bool(x.names & CRASH_NAMES)


def evaluate_tamper(case, res):
    """partition-level faults: find_distributed_partition's result of a VALID
    program is tampered with on one rank (ptamper), then every rank runs
    verify / number / execute.  Required: if the tampered global part graph is
    cyclic (reference model: partcheck.check_global) and nevertheless every
    rank gets through verify_distributed_partition, then the execution must
    still succeed; a verified partition that hangs, crashes or computes wrong
    values is a violation.  Nothing is demanded of a tampering that leaves a
    feasible order."""
    rec = res["record"]
    n = len(rec)
    status = res["status"]
    v = []
    desc = [r.get("tampered") for r in rec if r.get("tampered")]
    if not desc:
        case["_tamper_outcome"] = "no-candidate"
        return v
    pre = [i for i in range(n) if rec[i].get("stage") in (None, "partitioned")]
    raised_pre = [(i, ExcInfo.of(status[i][1])) for i in pre
                  if status[i][0] == "raised"]
    if raised_pre:
        for i, x in raised_pre:
            if "SimLivelock" in x.names:
                v.append({"class": "livelock", "rank": i, "detail": x.text})
            elif _is_crash(x):
                v.append({"class": f"crashed-instead-of-diagnosing:{x.tname}",
                          "rank": i, "detail": x.text + f" after: {desc}"})
        case["_tamper_outcome"] = "diagnosed:" + "/".join(
            sorted({x.tname for _i, x in raised_pre}))
        return v
    if pre:
        v.append({"class": "stuck-before-verification-finished", "rank": None,
                  "detail": f"{[st[0] for st in status]} after: {desc}"})
        case["_tamper_outcome"] = "stuck"
        return v
    if case["tamper"]["kind"] == "dup-send":
        # two sends with one (source, destination, tag): every rank got
        # through verify_distributed_partition although the duplicate is there
        v.append({"class": "duplicate-send-verified", "rank": None,
                  "detail": f"{desc[0]}; every rank passed "
                            "verify_distributed_partition"})
        case["_tamper_outcome"] = "VERIFIED-WITH-DUPLICATE-SEND"
        return v
    model = partcheck.check_global([r["partition"] for r in rec])
    cyc = [m for m in model if m["class"] == "global-part-graph-cyclic"]
    ov = distrun.oracle_c08(case["recipe"], res, case.get("iterations", 1))
    if not ov:
        case["_tamper_outcome"] = "verified-and-executed" + (
            "-though-model-cyclic" if cyc else "")
        return v
    if cyc:
        v.append({"class": "infeasible-partition-verified", "rank": None,
                  "detail": f"{desc[0]}; part graph: {cyc[0]['detail']}; every "
                            f"rank passed verify_distributed_partition; "
                            f"execution: {e1.classes_of(ov)}"})
        case["_tamper_outcome"] = "VERIFIED-BUT-INFEASIBLE"
    else:
        case["_tamper_outcome"] = "verified-failed-outside-cycle-model"
    return v


def evaluate(case, res):
    """C10 oracle on a thread-actor run"""
    if case.get("tamper"):
        return evaluate_tamper(case, res)
    model = commmodel.analyse(res["dags"])
    case["_model"] = model
    return evaluate_status(model, res["status"], res["outcome"])


def evaluate_status(model, status, outcome):
    """status: per rank ("returned",) / ("raised", exception or ExcInfo or
    dict) / ("blocked", ...)"""
    n = len(status)
    v = []
    raised = [(r, ExcInfo.of(st[1])) for r, st in enumerate(status)
              if st[0] == "raised"]
    returned = [r for r, st in enumerate(status) if st[0] == "returned"]
    if model["well_formed"]:
        # a correct computation is never rejected
        for r, x in raised:
            v.append({"class": f"valid-program-rejected:{x.tname}",
                      "rank": r, "detail": x.text})
        if not raised and len(returned) != n:
            v.append({"class": "valid-program-" + outcome, "rank": None,
                      "detail": str([st[0] for st in status])})
        return v
    defects = model["defects"]
    for r, x in raised:
        if "SimLivelock" in x.names:
            v.append({"class": "livelock", "rank": r, "detail": x.text})
        elif _is_crash(x):
            v.append({"class": f"crashed-instead-of-diagnosing:{x.tname}",
                      "rank": r, "detail": x.text + f" model: {defects[:3]}"})
    if len(returned) == n:
        v.append({"class": "ill-formed-program-partitioned", "rank": None,
                  "detail": f"all ranks returned a partition; model: {defects[:4]}"})
        return v
    fam_raisers = {r for r, x in raised if not _is_crash(x)
                   and "SimLivelock" not in x.names}
    affected = set()
    for _cls, ranks, _d in defects:
        affected |= set(ranks)
    if not (fam_raisers & affected):
        v.append({"class": "no-diagnostic-on-affected-ranks", "rank": None,
                  "detail": f"raised on {sorted(fam_raisers)}, affected "
                            f"{sorted(affected)}; status "
                            f"{[st[0] for st in status]}; model {defects[:3]}"})
    only_cycle = all(d[0] == "cycle" for d in defects)
    if only_cycle and len(fam_raisers) != n:
        v.append({"class": "cycle-not-raised-on-every-rank", "rank": None,
                  "detail": f"raised on {sorted(fam_raisers)} of {n}; status "
                            f"{[st[0] for st in status]}"})
    if outcome in ("deadlock", "step-limit"):
        v.append({"class": outcome, "rank": None,
                  "detail": str([st[0] for st in status])})
    return v


def fault_sets(recipe, rng, npairs):
    """[(recipe', faults)] : no fault, every single fault, seeded pairs"""
    out = [(recipe, [])]
    singles = mrecipe.enumerate_faults(recipe)
    for f in singles:
        out.append((recipe, [f]))
    _live, livec = mrecipe.live_sets(recipe)
    for ci in livec:
        rc, f = mrecipe.close_cycle(recipe, ci)
        out.append((rc, [f]))
        three = mrecipe.close_cycle3(recipe, ci)
        if three is not None:
            out.append((three[0], [dict(three[1], kind="close-cycle",
                                        length=3)]))
    if singles:
        for _ in range(npairs):
            f1 = rng.choice(singles)
            if rng.random() < 0.3:
                # a cancelling / compounding fault on the same operation
                same = [f for f in singles if f["comm"] == f1["comm"]
                        and f["kind"] != f1["kind"]
                        and f["kind"].split("-")[0] == f1["kind"].split("-")[0]]
                f2 = rng.choice(same) if same else rng.choice(singles)
            else:
                f2 = rng.choice(singles)
            if f1 == f2:
                continue
            out.append((recipe, [f1, f2]))
    return out


# {{{ process actors: one interpreter per rank

def _proc_case(ws, recipe, faults, rng):
    from simkit import procranks
    n = recipe["nranks"]
    state, results, _stats = procranks.run(ws, recipe, rng, faults=faults,
                                           stop_after="verify")
    status = []
    for r in range(n):
        if state[r] == "returned":
            status.append(("returned",))
        elif state[r] == "raised":
            status.append(("raised", results[r]["raised"]))
        else:
            status.append(("blocked", state[r]))
    dags = [mrecipe.build_rank(recipe, r, faults=faults) for r in range(n)]
    model = commmodel.analyse(dags)
    outcome = "ok" if all(s[0] != "blocked" for s in status) else "blocked"
    return evaluate_status(model, status, outcome), model, status


def _safety_only(v):
    """with python -O on some rank, the diagnostics pytato keeps under `if
    __debug__:` / assert are compiled away by the user's own choice: what is
    still demanded is the safety half of the property (no partition for an
    ill-formed program, no rejection of a valid one, no hang)"""
    return [x for x in v
            if x["class"] in ("ill-formed-program-partitioned", "deadlock",
                              "step-limit", "livelock")
            or x["class"].startswith("valid-program-")]


def run_proc_group(task):
    from simkit import fleet
    seed, (_kind, group), nprogs, nfaults = task
    acc = e1.Accum()
    t0 = time.monotonic()
    rng = random.Random(f"{seed}:{PROP}:proc:{group}")
    cfgs = fleet.draw_configs(rng, 4, optimize_all=(group % 3 == 1))
    ws = [fleet.Worker.from_config(c, f"p{group}.{i}")
          for i, c in enumerate(cfgs)]
    acc.extra["process_actor_interpreters"] += len(ws)
    if cfgs[0].get("optimize"):
        acc.extra["process_actor_groups_running_python_-O"] += 1
    try:
        for i in range(nprogs):
            prng = random.Random(f"{seed}:{PROP}:proc:{group}:{i}")
            recipe = mrecipe.gen_recipe(prng)
            _live, livec = mrecipe.live_sets(recipe)
            if recipe["nranks"] < 2 or not livec:
                continue
            sets = fault_sets(recipe, prng, 0)
            picks = [sets[0]] + prng.sample(sets[1:], min(nfaults, len(sets) - 1))
            for fi, (rc, faults) in enumerate(picks):
                v, model, status = _proc_case(
                    ws, rc, faults, random.Random(f"{seed}:{group}:{i}:{fi}"))
                if any(c.get("optimize") for c in cfgs):
                    v = _safety_only(v)
                    acc.extra["process_actor_runs_with_-O_interpreters"] += 1
                acc.runs += 1
                acc.extra["process_actor_runs"] += 1
                key = hashlib.sha256(("proc" + e1.recipe_digest(rc)
                                      + json.dumps(faults, sort_keys=True)
                                      ).encode()).digest()[:8]
                acc.pairs.add(key)
                if not model["well_formed"]:
                    acc.nontrivial_pairs.add(key)
                if v:
                    acc.violations.append({
                        "stream": f"proc{group}", "run": f"{i}.{fi}",
                        "case": {"recipe": rc, "cfg": {}, "iterations": 1,
                                 "faults": faults, "mode": "process",
                                 "configs": cfgs, "stop_after": "verify"},
                        "decisions": [], "classes": e1.classes_of(v),
                        "details": v[:8]})
            if len(acc.violations) >= 2:
                break
    finally:
        for w in ws:
            w.close()
    acc.wall = time.monotonic() - t0
    return acc


def minimise_process(v, target, budget_s=60.0):
    return v["case"], []


def replay_process(doc):
    from simkit import fleet
    ws = [fleet.Worker.from_config(c, f"rp{i}")
          for i, c in enumerate(doc["configs"])]
    try:
        v, _m, _s = _proc_case(ws, doc["recipe"], doc.get("faults", []),
                               random.Random("replay"))
    finally:
        for w in ws:
            w.close()
    if any(c.get("optimize") for c in doc["configs"]):
        v = _safety_only(v)
    return v

# }}}


def run_stream(task):
    if isinstance(task[1], tuple):
        return run_proc_group(task)
    seed, stream, nprogs, npairs, ntampers = task
    known = driver.load_known_findings(PROP)
    acc = e1.Accum()
    t0 = time.monotonic()
    outcomes = collections.Counter()
    for run in range(nprogs):
        rng = e1.case_rng(seed, PROP, stream, run)
        recipe = mrecipe.gen_recipe(rng)
        _live, livec = mrecipe.live_sets(recipe)
        if recipe["nranks"] < 2 or not livec:
            acc.extra["programs_without_communication_skipped"] += 1
            continue
        acc.extra["programs"] += 1
        for fi, (rc, faults) in enumerate(fault_sets(recipe, rng, npairs)):
            cfg = simmpi.draw_config(rng, rc["nranks"])
            case = {"recipe": rc, "cfg": cfg, "iterations": 1,
                    "real_codegen": False, "faults": faults,
                    "stop_after": "verify"}
            sub = random.Random(f"{seed}:{PROP}:{stream}:{run}:{fi}")
            res, trace = e1.run_with(case, None, sub)
            if fi == 0:
                base_parts = [rec.get("partition") for rec in res["record"]]
            v = evaluate(case, res)
            model = case.pop("_model")
            acc.runs += 1
            acc.events += res["sim"].stats["events"]
            acc.stats.update(res["sim"].stats)
            acc.policies[cfg["policy"]] += 1
            key = hashlib.sha256((e1.recipe_digest(rc)
                                  + json.dumps(faults, sort_keys=True)).encode()
                                 ).digest()[:8]
            acc.pairs.add(key)
            if not model["well_formed"]:
                acc.nontrivial_pairs.add(key)
            kinds = "+".join(sorted(
                f["kind"] + ("-3" if f.get("length") == 3 else "")
                for f in faults)) or "none"
            acc.extra[f"fault:{kinds if len(faults) < 2 else 'pair'}"] += 1
            for f in faults:
                acc.extra[f"injected:{f['kind']}"] += 1
            acc.extra["model_ill_formed" if not model["well_formed"]
                      else "model_well_formed"] += 1
            if faults and model["well_formed"]:
                acc.extra["faults_that_cancel"] += 1
            for d in model["defects"]:
                acc.extra[f"defect:{d[0]}"] += 1
            sig = (kinds if len(faults) < 2 else "pair",
                   tuple(sorted({st[0] if st[0] != "raised"
                                 else type(st[1]).__name__
                                 for st in res["status"]})))
            outcomes[sig] += 1
            if len(acc.samples) < 2 and len(faults) == 1:
                acc.samples.append({
                    "recipe": rc, "faults": faults, "sim_config": cfg,
                    "model": [list(d[:2]) for d in model["defects"]],
                    "status": [st[0] if st[0] != "raised"
                               else "raised:" + type(st[1]).__name__
                               for st in res["status"]],
                    "schedule_head": trace[:30]})
            if v:
                rest, hits = match_known(case, v, known)
                for h in hits:
                    acc.known.append((h, stream, run))
                if rest:
                    acc.violations.append({
                        "stream": stream, "run": f"{run}.{fi}", "case": case,
                        "decisions": trace, "classes": e1.classes_of(rest),
                        "details": rest[:8]})
        # partition-level faults on the valid program
        for ti in range(ntampers):
            trng = random.Random(f"{seed}:{PROP}:{stream}:{run}:t{ti}")
            kk = trng.random()
            kind = "move-recv" if kk < 0.6 else (
                "add-needed" if kk < 0.8 else "dup-send")
            # a rank whose partition (as seen in the fault-free run) offers a
            # candidate, if there is one
            ranks = [r for r, p in enumerate(base_parts) if p is not None
                     and ptamper.candidates(p, kind)] \
                or list(range(recipe["nranks"]))
            tam = {"rank": trng.choice(ranks), "kind": kind,
                   "pick": trng.randrange(10 ** 6)}
            cfg = simmpi.draw_config(trng, recipe["nranks"])
            case = {"recipe": recipe, "cfg": cfg, "iterations": 1,
                    "real_codegen": False, "faults": [],
                    "stop_after": "execute", "tamper": tam}
            res, trace = e1.run_with(case, None, trng)
            v = evaluate(case, res)
            oc = case.pop("_tamper_outcome", "?")
            acc.runs += 1
            acc.events += res["sim"].stats["events"]
            acc.stats.update(res["sim"].stats)
            acc.policies[cfg["policy"]] += 1
            acc.extra[f"tamper[{tam['kind']}]:{oc}"] += 1
            if oc != "no-candidate":
                acc.extra["partition_tamperings_applied"] += 1
                key = hashlib.sha256((e1.recipe_digest(recipe) + json.dumps(
                    tam, sort_keys=True)).encode()).digest()[:8]
                acc.pairs.add(key)
                if oc.startswith("diagnosed"):
                    acc.nontrivial_pairs.add(key)
            if v:
                rest, hits = match_known(case, v, known)
                for h in hits:
                    acc.known.append((h, stream, run))
                if rest:
                    acc.violations.append({
                        "stream": stream, "run": f"{run}.t{ti}", "case": case,
                        "decisions": trace, "classes": e1.classes_of(rest),
                        "details": rest[:8]})
        if len(acc.violations) >= 3:
            break
    for (kinds, sig), cnt in outcomes.items():
        acc.extra[f"outcome[{kinds}]:{'/'.join(sig)}"] += cnt
    acc.wall = time.monotonic() - t0
    return acc


def make_tasks(seed, conf):
    tasks = [(seed, k, conf["runs"], conf["pairs"], conf.get("tampers", 0))
             for k in range(conf["streams"])]
    for g in range(conf.get("proc_groups", 0)):
        tasks.insert(min(len(tasks), 4 * g),
                     (seed, ("proc", g), conf["proc_progs"], conf["proc_faults"]))
    return tasks


def coverage_extra(total):
    tab = {k: int(v) for k, v in sorted(total.extra.items())
           if k.startswith("outcome[")}
    return {
        "fault_kinds_injected": {k[9:]: int(v) for k, v in sorted(total.extra.items())
                                 if k.startswith("injected:")},
        "model_defect_classes": {k[7:]: int(v) for k, v in sorted(total.extra.items())
                                 if k.startswith("defect:")},
        "outcome_table": tab,
        "partition_tampering_outcomes": {
            k[6:]: int(v) for k, v in sorted(total.extra.items())
            if k.startswith("tamper[")},
        "exhaustive_over": "all single faults at all live communication "
                           "operations of each sampled program (the programs "
                           "themselves are sampled)",
    }


def replay(path):
    with open(path) as f:
        doc = json.load(f)
    if doc.get("mode") == "process":
        v = replay_process(doc)
        return doc, e1.classes_of(v), v
    case = e1.case_from_doc(doc)
    if not case.get("tamper"):
        case["stop_after"] = "verify"
    res, _trace = e1.run_with(case, doc["schedule"])
    v = evaluate(case, res)
    case.pop("_model", None)
    case.pop("_tamper_outcome", None)
    rest, _hits = match_known(case, v, driver.load_known_findings(PROP))
    return doc, e1.classes_of(rest), rest
