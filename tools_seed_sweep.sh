#!/bin/sh
# usage: tools_seed_sweep.sh "<seeds>" "<checks>" [tier]
# Runs each check's tier under each VERIF_SEED with evidence/replays redirected
# to a scratch directory (so committed evidence is untouched); prints one line
# per run.  Any line not ending in "exit=0" needs attention.
seeds=${1:-"1 2 3 4 5"}; checks=${2:-"C04 C08 C09 C10 C17 C18"}; tier=${3:-quick}
out=$(mktemp -d /tmp/verif-sweep-XXXXXX)
for s in $seeds; do
  for c in $checks; do
    VERIF_SEED=$s VERIF_EVIDENCE_DIR=$out/ev VERIF_REPLAY_DIR=$out/rp-$s-$c \
      ./check $c --tier $tier > $out/log-$s-$c.txt 2>&1
    rc=$?
    echo "seed=$s check=$c $(grep -c '^VIOLATION' $out/log-$s-$c.txt) violation lines exit=$rc"
    if [ $rc -ne 0 ]; then tail -15 $out/log-$s-$c.txt; fi
  done
done
echo "logs kept in $out (remove when done)"
