"""Self-tests of the harness: sensitivity (mutants) and determinism."""
from __future__ import annotations

import os
import shutil
import subprocess
import sys
import tempfile
import time

from simkit import driver


def _scratch_copy():
    """<scratch>/code/pytato is the copy (and <scratch>/code the PYTHONPATH
    entry); outputs go to <scratch>/out.  Nothing may be created inside the
    PYTHONPATH directory while a check runs: importlib re-scans a path entry
    whose mtime changed, at a moment that depends on timing, and the extra
    allocations make object addresses in the fleet interpreters -- and with
    them address-dependent findings -- irreproducible (seen with seeded change
    C04-c04e)."""
    top = tempfile.mkdtemp(prefix="verif-mut-", dir="/tmp")
    d = os.path.join(top, "code")
    os.makedirs(os.path.join(top, "out"))
    shutil.copytree("/repo/pytato", os.path.join(d, "pytato"),
                    ignore=shutil.ignore_patterns("__pycache__"))
    return d


def _out_dir(d, name):
    return os.path.join(os.path.dirname(d), "out", name)


def _remove_scratch(d):
    shutil.rmtree(os.path.dirname(d), ignore_errors=True)


def run_mutant(m, quick_args=()):
    d = _scratch_copy()
    try:
        path = os.path.join(d, "pytato", m["file"])
        with open(path) as f:
            src = f.read()
        if m["old"] not in src:
            return "stale", "pattern not found (pytato source changed?)", 0.0
        src = src.replace(m["old"], m["new"].replace("\\n", "\n"), 1)
        if "new2" in m:
            if m["new2"][0] not in src:
                return "stale", "second pattern not found", 0.0
            src = src.replace(m["new2"][0], m["new2"][1], 1)
        with open(path, "w") as f:
            f.write(src)
        env = dict(os.environ)
        env.pop("VERIF_CHILD", None)
        env["PYTHONPATH"] = d
        env["VERIF_PYTATO_ROOT"] = d
        env["VERIF_EVIDENCE_DIR"] = _out_dir(d, "evidence")
        env["VERIF_REPLAY_DIR"] = _out_dir(d, "replays")
        t0 = time.monotonic()
        r = subprocess.run(
            [os.path.join(driver.VERIF_DIR, "check"), m["prop"], "--tier",
             "quick", *quick_args],
            capture_output=True, text=True, env=env, cwd=driver.VERIF_DIR,
            timeout=1800)
        wall = time.monotonic() - t0
        lines = [ln for ln in r.stdout.splitlines()
                 if ln.startswith("VIOLATION") or "violation class" in ln]
        if r.returncode == 1 and any(ln.startswith("VIOLATION") for ln in lines):
            return "killed", "; ".join(lines[:2])[:300], wall
        if r.returncode == 0:
            return "survived", r.stdout[-300:], wall
        return "harness-error", (r.stdout[-800:] + r.stderr[-1500:]), wall
    finally:
        _remove_scratch(d)


def run_patch(patch, prop):
    d = _scratch_copy()
    try:
        r = subprocess.run(["patch", "-p1", "-s", "-d", d, "-i", patch],
                           capture_output=True, text=True)
        if r.returncode != 0:
            return "stale", "patch does not apply: " + r.stdout[-300:], 0.0
        env = dict(os.environ)
        env.pop("VERIF_CHILD", None)
        env["PYTHONPATH"] = d
        env["VERIF_PYTATO_ROOT"] = d
        env["VERIF_EVIDENCE_DIR"] = _out_dir(d, "evidence")
        env["VERIF_REPLAY_DIR"] = _out_dir(d, "replays")
        t0 = time.monotonic()
        r = subprocess.run(
            [os.path.join(driver.VERIF_DIR, "check"), prop, "--tier", "quick"],
            capture_output=True, text=True, env=env, cwd=driver.VERIF_DIR,
            timeout=1800)
        wall = time.monotonic() - t0
        lines = [ln for ln in r.stdout.splitlines()
                 if ln.startswith("VIOLATION") or "violation class" in ln]
        if r.returncode == 1 and any(ln.startswith("VIOLATION") for ln in lines):
            return "killed", "; ".join(lines[:2])[:300], wall
        if r.returncode == 0:
            return "survived", r.stdout[-300:], wall
        return "harness-error", (r.stdout[-800:] + r.stderr[-1500:]), wall
    finally:
        _remove_scratch(d)


def main(what, args):
    from checks.mutants import MUTANTS
    if what == "selftest-mutants":
        only = os.environ.get("VERIF_MUTANT")
        props = os.environ.get("VERIF_MUTANT_PROPS")
        bad = 0
        for m in MUTANTS:
            if only and m["id"] != only:
                continue
            if props and m["prop"] not in props.split(","):
                continue
            status, info, wall = run_mutant(m)
            expect = "survived" if m.get("expect") == "pass" else "killed"
            ok = status == expect or (m.get("expect") == "either"
                                      and status in ("killed", "survived"))
            bad += not ok
            print(f"{'ok  ' if ok else 'FAIL'} {m['id']:45s} {m['prop']} "
                  f"{status:14s} {wall:6.1f}s  {info if not ok or status == 'killed' else ''}",
                  flush=True)
        return 1 if bad else 0
    if what == "selftest-seeded":
        # the independent seeded changes (seeded/<id>/patch.diff), applied to a
        # scratch copy of /repo/pytato -- /repo itself is not touched
        import glob
        import json
        bad = 0
        only = os.environ.get("VERIF_SEEDED")
        for d in sorted(glob.glob(os.path.join(driver.VERIF_DIR, "seeded", "*"))):
            name = os.path.basename(d)
            if only and name != only:
                continue
            if not os.path.exists(os.path.join(d, "patch.diff")):
                continue            # seeded/benign: see selftest-benign
            meta = json.load(open(os.path.join(d, "meta.json")))
            if meta.get("superseded"):
                print(f"skip {name:12s} {meta['property']} superseded: "
                      f"{meta['superseded'][:110]}...", flush=True)
                continue
            status, info, wall = run_patch(os.path.join(d, "patch.diff"),
                                           meta["property"])
            ok = status == "killed"
            bad += not ok
            print(f"{'ok  ' if ok else 'FAIL'} {name:12s} {meta['property']} "
                  f"{status:14s} {wall:6.1f}s  {info[:160] if ok else info}",
                  flush=True)
        return 1 if bad else 0
    if what == "selftest-benign":
        # behaviour-preserving refactorings written by independent agents
        # (seeded/benign/*.diff): every check they could concern must PASS
        import json
        bdir = os.path.join(driver.VERIF_DIR, "seeded", "benign")
        targets = json.load(open(os.path.join(bdir, "targets.json")))
        only = os.environ.get("VERIF_BENIGN")
        bad = 0
        for name in sorted(targets):
            if only and name != only:
                continue
            for prop in targets[name]:
                status, info, wall = run_patch(os.path.join(bdir, name), prop)
                ok = status == "survived"
                bad += not ok
                print(f"{'ok  ' if ok else 'FAIL'} {name:12s} {prop} "
                      f"{status:14s} {wall:6.1f}s  {'' if ok else info}",
                      flush=True)
        return 1 if bad else 0
    if what == "selftest-determinism":
        from checks import determinism
        return determinism.main(args)
    print("unknown selftest", what, file=sys.stderr)
    return 2
