"""Bounded exhaustive stratum: depth-first enumeration of ALL schedules of a
small multi-rank run (every order of message deliveries / send completions /
wake-ups from Wait and Waitsome, every non-empty subset a Waitsome may
report), for eager and for rendezvous sends.  Complements the seeded search;
the property C08 asks for 'exhaustive for small instances'."""
from __future__ import annotations

from . import distrun, simmpi


def enum_config(eager: bool):
    cfg = dict(simmpi.DEFAULT_CONFIG)
    cfg.update({"policy": "enum", "eager_prob": 1.0 if eager else 0.0,
                "hold_prob": 0.0, "late_read": True, "ws_enum": True,
                "waitsome_all_prob": 1.0, "reduce_shuffle": False})
    return cfg


def enumerate_case(recipe, evaluate, max_runs=4000, iterations=1):
    """-> dict(schedules, exhaustive, violations (first), digests)"""
    total = 0
    exhaustive = True
    first_bad = None
    digests = set()
    for eager in (True, False):
        cfg = enum_config(eager)
        prefix: list = []
        while True:
            ch = simmpi.EnumChooser(prefix)
            res = distrun.run_case(recipe, cfg, ch, iterations=iterations)
            total += 1
            digests.add(res["log_digest"])
            case = {"recipe": recipe, "cfg": cfg, "iterations": iterations}
            v = evaluate(case, res)
            if v and first_bad is None:
                first_bad = {"case": case, "decisions": ch.trace,
                             "violations": v}
            t = [list(c) for c in ch.choices]
            while t and t[-1][0] >= t[-1][1] - 1:
                t.pop()
            if not t:
                break
            prefix = [c[0] for c in t[:-1]] + [t[-1][0] + 1]
            if total >= max_runs:
                exhaustive = False
                break
        if not exhaustive or first_bad is not None:
            break
    return {"schedules": total, "exhaustive": exhaustive and first_bad is None,
            "bad": first_bad, "distinct_logs": len(digests)}
