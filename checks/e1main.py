"""Generic runner for the E1 (SimMPI) checks."""
from __future__ import annotations

import json
import os
import sys
import time

from simkit import driver, e1, simmpi


def _fmt_rate(n, wall):
    return round(n / wall * 3600.0) if wall > 0 else 0


def run_check(mod, tier, *, streams=None, runs=None, budget_s=None):
    prop = mod.PROP
    seed = driver.get_seed()
    conf = dict(mod.TIERS[tier])
    if streams is not None:
        conf["streams"] = streams
    if runs is not None:
        conf["runs"] = runs
    if budget_s is not None:
        conf["budget_s"] = budget_s
    timer = driver.Timer()
    pytato_file = driver.assert_repo_pytato()
    print(f"[{prop}] tier={tier} VERIF_SEED={seed} pytato={pytato_file} "
          f"aslr_off={os.environ.get('VERIF_ASLR_OFF')} "
          f"hashseed={os.environ.get('PYTHONHASHSEED')}", flush=True)
    tasks = mod.make_tasks(seed, conf) if hasattr(mod, "make_tasks") else \
        [(seed, k, conf["runs"], conf["codegen_every"])
         for k in range(conf["streams"])]
    deadline = None
    if conf.get("budget_s"):
        deadline = time.monotonic() + conf["budget_s"]
    total = e1.Accum()
    bad_streams = 0
    harness_trouble = []
    done = 0

    def stop_when(acc):
        nonlocal bad_streams
        if acc.violations:
            bad_streams += 1
        return bad_streams >= 2

    for idx, task, status, result in driver.forkpool(
            tasks, mod.run_stream, timeout=conf.get("stream_timeout", 900.0),
            stop_when=stop_when, deadline=deadline):
        if status == "ok":
            total.merge(result)
            done += 1
        elif status == "skipped":
            pass
        else:
            harness_trouble.append(f"stream {idx}: {status}: "
                                   f"{str(result)[-1500:]}")
    harness_trouble += total.harness_errors

    # violations: minimise one per target class, write + confirm replay
    reported = []
    by_class: dict = {}
    for v in sorted(total.violations,
                    key=lambda x: (str(x["stream"]), str(x["run"]))):
        by_class.setdefault(v["classes"][0], v)
    for target, v in sorted(by_class.items())[:3]:
        case, dec = v["case"], v["decisions"]
        try:
            if case.get("mode") == "process":
                mcase, mdec = mod.minimise_process(v, target)
            else:
                mcase, mdec = e1.minimise(
                    case, dec, target, mod.evaluate,
                    budget_s=90.0 if tier == "quick" else 240.0)
        except Exception as exc:  # noqa: BLE001
            print(f"[{prop}] minimisation failed ({exc!r}); keeping the "
                  "original case", flush=True)
            mcase, mdec = case, dec
        doc = e1.replay_doc(prop, seed, v["stream"], v["run"], mcase, mdec,
                            v["classes"], v["details"], target)
        doc["original_size"] = list(map(int, _size(case)))
        doc["minimised_size"] = list(map(int, _size(mcase)))
        doc["original_schedule_len"] = len(dec)
        path = driver.write_replay(prop, f"{seed}-{v['stream']}-{v['run']}", doc)
        ok, out = driver.confirm_replay(prop, path)
        if not ok:
            # fall back to the unminimised case
            doc = e1.replay_doc(prop, seed, v["stream"], v["run"], case, dec,
                                v["classes"], v["details"], target)
            path = driver.write_replay(
                prop, f"{seed}-{v['stream']}-{v['run']}", doc)
            ok, out = driver.confirm_replay(prop, path)
        if ok:
            reported.append((target, path, v))
        else:
            harness_trouble.append(
                f"violation {v['classes']} at stream {v['stream']} run "
                f"{v['run']} did not reproduce on replay: {out[-600:]}")

    known_ids = sorted({k[0] for k in total.known})
    known_docs = {k["id"]: k for k in driver.load_known_findings(prop)}
    for kid in known_ids:
        n = sum(1 for k in total.known if k[0] == kid)
        print(f"KNOWN-FINDING: property={prop} {kid}: "
              f"{known_docs[kid]['what']} (seen in {n} runs)", flush=True)
    for target, path, v in reported:
        print(f"[{prop}] violation class {v['classes']} first seen at "
              f"stream {v['stream']} run {v['run']}:")
        for d in v["details"][:4]:
            print(f"    {d['class']} rank={d['rank']}: {str(d['detail'])[:300]}")
        print(f"VIOLATION property={prop} replay={path}", flush=True)

    wall = timer()
    coverage = {
        "evaluations": total.runs,
        "distinct_nontrivial": len(total.nontrivial_pairs),
        "rule": mod.RULE if hasattr(mod, "RULE") else (
            "one evaluation = one complete simulated multi-rank run (seeded "
            "recipe + seeded schedule/perturbations); distinct = distinct "
            "(recipe digest, event-log digest) pairs; non-trivial = at least 2 "
            "ranks and at least 1 live message"),
        "samples": total.samples[:2],
        "streams_completed": done,
        "streams_planned": len(tasks),
        "simulated_events": total.events,
        "simulated_time_note": "pytato has no clock or timer; simulated time "
                               "is the scheduler's event count",
        "runs_per_hour": _fmt_rate(total.runs, wall),
        "seeds_per_hour": _fmt_rate(total.runs, wall),
        "distinct_schedules": len(total.schedules),
        "distinct_recipe_schedule_pairs": len(total.pairs),
        "distinct_comm_topologies": len(total.topologies),
        "distinct_partition_shapes": len(total.partshapes),
        "small_instance_good_turing": e1.good_turing(total.small),
        "perturbations_fired": {k: int(total.stats[k]) for k in sorted(total.stats)},
        "policies": dict(sorted(total.policies.items())),
        "workload_probes": {k: int(total.probes[k]) for k in sorted(total.probes)},
        "probes_at_zero": sorted(
            k for k in getattr(mod, "EXPECTED_PROBES", ())
            if not total.probes.get(k) and not total.stats.get(k)),
        "extra": {k: int(total.extra[k]) for k in sorted(total.extra)},
        "components": e1.REAL_STUB_TABLE,
        "known_findings_seen": known_ids,
        "harness_trouble": harness_trouble[:10],
        "exhaustive": False,
    }
    if hasattr(mod, "coverage_extra"):
        coverage.update(mod.coverage_extra(total))
    driver.write_evidence(
        prop, tier, seed, mod.LEVEL if hasattr(mod, "LEVEL") else "exploration",
        coverage, wall, len(reported),
        getattr(mod, "ASSUMPTIONS", []))
    print(f"[{prop}] runs={total.runs} events={total.events} "
          f"distinct_nontrivial={len(total.nontrivial_pairs)} "
          f"violations={len(reported)} known={known_ids} wall={wall:.1f}s "
          f"({_fmt_rate(total.runs, wall)} runs/h)", flush=True)
    if coverage["probes_at_zero"]:
        print(f"[{prop}] note: probes at zero: {coverage['probes_at_zero']}")
    if reported:
        return 1
    if harness_trouble:
        for h in harness_trouble[:5]:
            print(f"[{prop}] HARNESS-ERROR: {h}", file=sys.stderr, flush=True)
        return 2
    if total.runs == 0:
        print(f"[{prop}] HARNESS-ERROR: nothing ran", file=sys.stderr)
        return 2
    return 0


def _size(case):
    from simkit import mrecipe
    return mrecipe.recipe_size(case["recipe"])


def run_replay(mod, path):
    driver.assert_repo_pytato()
    doc, classes, rest = mod.replay(path)
    target = doc.get("target_class")
    print(f"[{mod.PROP}] replay {path}: classes now {classes}, "
          f"recorded {doc.get('verdict_classes')}")
    if target in classes or (target is None and classes):
        for d in rest[:4]:
            print(f"    {d['class']} rank={d['rank']}: {str(d['detail'])[:300]}")
        print(f"VIOLATION property={mod.PROP} replay={path}", flush=True)
        return 1
    print(f"[{mod.PROP}] not reproduced")
    return 0
