"""Multi-rank recipes: abstract multi-rank programs ("the program text"),
their seeded generator, the recipe-level NumPy oracle, the builder that turns a
recipe into per-rank pytato graphs through the public API, the C10 fault
operators, and a shrinker.

A recipe is plain JSON.  Values are numbered; every value lives on one rank.

  value:  {"rank", "op", "args": [value ids], "p": {...}, "stored": bool}
          leaf ops: "input" (p: name, data, dtype), "dw" (p: data, dtype),
                    "recv" (p: comm)
  comm:   {"src_val", "src", "dst", "tag": [kind, id], "recv_val",
           "staple": ["out", index into outs] | ["val", value id]}
  out:    {"rank", "name", "val"}

All data are small integers held in int64/float64, so every operation is exact
and the oracle compares with equality.
"""
from __future__ import annotations

import copy
import random

import numpy as np

BOUND = 2 ** 24
MAX_SIZE = 48


# {{{ communication tags

class TagA:
    pass


class TagB:
    pass


class TagC:
    pass


import enum as _enum


class TagEnum(_enum.Enum):
    NORTH = 1
    SOUTH = 2
    EAST = 3


class OpaqueTag:
    """a legal tag: hashable, comparable, picklable -- but printed with its
    address (no __repr__)"""

    def __init__(self, value):
        self.value = value

    def __eq__(self, other):
        return isinstance(other, OpaqueTag) and self.value == other.value

    def __hash__(self):
        return hash(("OpaqueTag", self.value))


_TAG_CLASSES = [TagA, TagB, TagC]
TAG_KINDS = ("int", "str", "tuple", "cls", "clstuple", "fs", "bytes", "nested",
             "enum", "fsbare", "obj")


def mk_tag(tag):
    kind, k = tag
    if kind == "int":
        return int(k)
    if kind == "str":
        return f"tag{k}"
    if kind == "tuple":
        return (int(k), "x")
    if kind == "cls":
        # a class object itself; only three exist, so ids are folded
        return (_TAG_CLASSES[k % 3], k // 3)
    if kind == "clstuple":
        return (TagA, TagB, int(k))
    if kind == "fs":
        return (int(k), frozenset([TagA, "a", int(k), ("b", 2)]))
    if kind == "bytes":
        return b"tag-%d" % int(k)
    if kind == "nested":
        return (int(k), ("halo", (int(k) % 3, "x")), None)
    if kind == "enum":
        return (list(TagEnum)[k % 3], k // 3)
    if kind == "fsbare":
        # a bare frozenset: its repr follows the hash seed
        names = ["flux", "grad", "visc", "left", "right", "halo", "bdry"]
        return frozenset({names[k % 7], names[(k // 7 + 3) % 7], f"q{k}"})
    if kind == "obj":
        return OpaqueTag(int(k))
    if kind == "RETAG":
        return ("RETAG", int(k))
    raise ValueError(kind)

# }}}


# {{{ operation table: NumPy side and pytato side

def _idx_np(p):
    out = []
    for it in p["idx"]:
        if it[0] == "s":
            out.append(slice(it[1], it[2], it[3]))
        else:
            out.append(int(it[1]))
    return tuple(out)


def _np_op(op, a, p):
    if op == "add":
        return a[0] + a[1]
    if op == "sub":
        return a[0] - a[1]
    if op == "mul":
        return a[0] * a[1]
    if op == "max":
        return np.maximum(a[0], a[1])
    if op == "min":
        return np.minimum(a[0], a[1])
    if op == "addc":
        return a[0] + p["c"]
    if op == "mulc":
        return a[0] * p["c"]
    if op == "neg":
        return -a[0]
    if op == "where":
        return np.where(a[0] > p["c"], a[0], a[1])
    if op == "roll":
        return np.roll(a[0], p["shift"], p["axis"])
    if op == "transpose":
        return np.transpose(a[0], p["perm"])
    if op == "reshape":
        return np.reshape(a[0], tuple(p["shape"]), order=p["order"])
    if op == "sum":
        return np.sum(a[0], axis=p["axis"])
    if op == "amax":
        return np.amax(a[0], axis=p["axis"])
    if op == "stack":
        return np.stack([a[0], a[1]], axis=p["axis"])
    if op == "concat":
        return np.concatenate([a[0], a[1]] * p.get("n", 1), axis=p["axis"])
    if op == "index":
        return a[0][_idx_np(p)]
    if op == "advidx":
        return a[0][np.array(p["ia"], dtype=np.int64)]
    if op == "einsum":
        return np.einsum(p["spec"], *a)
    if op == "tofloat":
        return a[0].astype(np.float64)
    if op == "expand":
        return np.expand_dims(a[0], p["axis"])
    if op == "sumb":
        return np.sum(a[0]) + a[0]
    if op == "csrmv":
        vals_, cols_, rows_, x_ = a
        out = np.zeros(len(rows_) - 1, dtype=np.float64)
        for i in range(len(rows_) - 1):
            for k in range(int(rows_[i]), int(rows_[i + 1])):
                out[i] += vals_[k] * x_[int(cols_[k])]
        return out
    if op == "lpcall":
        return 2 * a[0]
    if op == "fncall":
        return _mr_fn(a[0])
    raise ValueError(op)


def _pt_op(op, a, p):
    import pytato as pt
    if op == "add":
        return a[0] + a[1]
    if op == "sub":
        return a[0] - a[1]
    if op == "mul":
        return a[0] * a[1]
    if op == "max":
        return pt.maximum(a[0], a[1])
    if op == "min":
        return pt.minimum(a[0], a[1])
    if op == "addc":
        return a[0] + p["c"]
    if op == "mulc":
        return a[0] * p["c"]
    if op == "neg":
        return -a[0]
    if op == "where":
        return pt.where(pt.greater(a[0], p["c"]), a[0], a[1])
    if op == "roll":
        return pt.roll(a[0], p["shift"], p["axis"])
    if op == "transpose":
        return pt.transpose(a[0], tuple(p["perm"]))
    if op == "reshape":
        return pt.reshape(a[0], tuple(p["shape"]), order=p["order"])
    if op == "sum":
        return pt.sum(a[0], axis=p["axis"])
    if op == "amax":
        return pt.amax(a[0], axis=p["axis"])
    if op == "stack":
        return pt.stack([a[0], a[1]], axis=p["axis"])
    if op == "concat":
        return pt.concatenate([a[0], a[1]] * p.get("n", 1), axis=p["axis"])
    if op == "index":
        return a[0][_idx_np(p)]
    if op == "advidx":
        return a[0][pt.make_data_wrapper(np.array(p["ia"], dtype=np.int64))]
    if op == "einsum":
        return pt.einsum(p["spec"], *a)
    if op == "tofloat":
        return a[0].astype(np.float64)
    if op == "expand":
        return pt.expand_dims(a[0], p["axis"])
    if op == "sumb":
        return pt.sum(a[0]) + a[0]
    if op == "csrmv":
        # sparse matrix (three component arrays, any of which may have come
        # from another rank) times a vector
        mat = pt.make_csr_matrix((p["nrows"], p["ncols"]), a[0], a[1], a[2])
        return mat @ a[3]
    if op == "lpcall":
        # a call to a hand-written loopy kernel (out[i] = 2*a[i])
        from pytato.loopy import call_loopy
        from .srecipe import loopy_kernel
        # (the operand is deduplicated first: call_loopy walks it with a
        # collision-checking mapper and, in debug mode, refuses operands that
        # contain equal but distinct nodes -- which any expression built
        # piecemeal does until the final deduplicate)
        return call_loopy(loopy_kernel("twice", int(a[0].shape[0])),
                          {"a": pt.transform.deduplicate(a[0])}, "twice")["out"]
    if op == "fncall":
        # an outlined function (a Call node and a NamedCallResult)
        return pt.trace_call(_mr_fn, a[0])
    raise ValueError(op)


def _mr_fn(x):
    return x * 3 + 1


ARITY = {"csrmv": 4, "lpcall": 1, "fncall": 1, "add": 2, "sub": 2, "mul": 2, "max": 2, "min": 2, "addc": 1, "mulc": 1,
         "neg": 1, "where": 2, "roll": 1, "transpose": 1, "reshape": 1,
         "sum": 1, "amax": 1, "stack": 2, "concat": 2, "index": 1, "advidx": 1,
         "einsum": 2, "tofloat": 1, "expand": 1, "sumb": 1}

OP_WEIGHTS = [("add", 8), ("sub", 3), ("mul", 4), ("max", 2), ("min", 1),
              ("addc", 4), ("mulc", 3), ("neg", 2), ("where", 2), ("roll", 3),
              ("transpose", 2), ("reshape", 2), ("sum", 3), ("amax", 1),
              ("stack", 2), ("concat", 2), ("index", 3), ("advidx", 1),
              ("einsum", 2), ("tofloat", 1), ("expand", 1), ("sumb", 2),
              ("lpcall", 2)]
# ("fncall" -- an outlined function, Call + NamedCallResult -- is implemented
# in both op tables but not drawn: the partitioner refuses it with an explicit
# NotImplementedError("... does not support functions"); users inline first.)


def _draw_params(rng, op, vals):
    """parameters for *op* given NumPy argument values; None if impossible"""
    a = vals[0]
    nd = a.ndim
    if op in ("max", "min"):
        # pt.maximum / pt.minimum accept floating-point operands only
        if any(v.dtype.kind != "f" for v in vals):
            return None
        return {}
    if op in ("addc", "mulc", "where"):
        return {"c": rng.randint(-3, 3)}
    if op == "csrmv":
        # only built by the "csr" template, which passes valid components
        return None
    if op == "lpcall":
        # the kernel takes one-dimensional float64 data
        if nd != 1 or a.dtype != np.float64 or a.shape[0] == 0:
            return None
        return {}
    if op == "fncall":
        return {}
    if op == "roll":
        if nd == 0:
            return None
        return {"shift": rng.randint(-3, 3), "axis": rng.randrange(nd)}
    if op == "transpose":
        if nd < 2:
            return None
        perm = list(range(nd))
        rng.shuffle(perm)
        return {"perm": perm}
    if op == "reshape":
        n = a.size
        cands = [[n]]
        for d in (1, 2, 3, 4):
            if n and n % d == 0:
                cands.append([d, n // d])
                cands.append([n // d, d])
        if n == 0:
            cands += [[0, 2], [2, 0], [0]]
        return {"shape": rng.choice(cands), "order": rng.choice(["C", "C", "F"])}
    if op in ("sum", "amax"):
        if nd == 0 or rng.random() < 0.4:
            return {"axis": None}
        return {"axis": rng.randrange(nd)}
    if op == "stack":
        return {"axis": rng.randrange(nd + 1)}
    if op == "concat":
        if nd == 0:
            return None
        return {"axis": rng.randrange(nd), "n": rng.choice([1, 1, 1, 1, 6])}
    if op == "index":
        if nd == 0:
            return None
        idx = []
        for ax in range(nd):
            n = a.shape[ax]
            k = rng.random()
            if k < 0.35 and n > 0:
                idx.append(["i", rng.randrange(n)])
            elif k < 0.8:
                lo = rng.randint(0, max(n - 1, 0))
                hi = rng.randint(lo, n)
                idx.append(["s", lo, hi, rng.choice([1, 1, 2])])
            else:
                idx.append(["s", None, None, rng.choice([1, -1])])
        return {"idx": idx}
    if op == "advidx":
        if nd == 0 or a.shape[0] == 0:
            return None
        k = rng.randint(1, 3)
        return {"ia": [rng.randrange(a.shape[0]) for _ in range(k)]}
    if op == "einsum":
        b = vals[1]
        specs = []
        if a.ndim == 2 and b.ndim == 1 and a.shape[1] == b.shape[0]:
            specs.append("ij,j->i")
        if a.ndim == 1 and b.ndim == 1 and a.shape == b.shape:
            specs += ["i,i->", "i,i->i"]
        if a.ndim == 2 and b.ndim == 2 and a.shape[1] == b.shape[0]:
            specs.append("ij,jk->ik")
        if a.ndim == 2 and b.ndim == 2 and a.shape == b.shape:
            specs.append("ij,ij->j")
        if a.ndim == 1 and b.ndim == 1:
            specs.append("i,j->ij")
        if not specs:
            return None
        return {"spec": rng.choice(specs)}
    if op == "expand":
        return {"axis": rng.randrange(nd + 1)}
    return {}

# }}}


# {{{ generator

SHAPES = [(), (1,), (2,), (3,), (4,), (0,), (2, 3), (3, 2), (1, 3), (4, 1),
          (2, 2), (0, 3), (2, 0), (2, 1, 2)]
SHAPE_W = [2, 1, 3, 6, 3, 1, 4, 3, 1, 1, 2, 1, 1, 1]

TEMPLATES = ("none", "none", "none", "ring", "star", "chain", "pingpong",
             "fanout", "multi", "forward", "crossing", "crossing",
             "gathersum", "gathersum", "holdercross", "csr")


def _leaf_data(rng, shape, dtype):
    n = int(np.prod(shape)) if shape else 1
    flat = [rng.randint(-4, 4) for _ in range(n)]
    return np.array(flat, dtype=dtype).reshape(shape)


class _Gen:
    def __init__(self, rng: random.Random, nranks: int, max_comm: int,
                 nvals: int):
        self.rng = rng
        self.n = nranks
        self.vals: list = []
        self.np: list = []            # NumPy value per recipe value
        self.comms: list = []
        self.budget = max_comm
        self.tagctr = 0
        self.tag_kinds = rng.sample(TAG_KINDS, rng.randint(1, len(TAG_KINDS)))
        self.store_prob = rng.choice([0.0, 0.15, 0.3, 0.6])
        self.leaf_store_prob = rng.choice([0.0, 0.0, 0.3])
        self.ninputs = [0] * nranks
        self.nvals = nvals
        self.forced_outs: list = []

    def add_val(self, v, npval):
        self.vals.append(v)
        self.np.append(npval)
        return len(self.vals) - 1

    def add_input(self, r):
        rng = self.rng
        shape = rng.choices(SHAPES, SHAPE_W)[0]
        dtype = rng.choice(["float64", "float64", "int64"])
        data = _leaf_data(rng, shape, dtype)
        if rng.random() < 0.25:
            v = {"rank": r, "op": "dw", "args": [],
                 "p": {"data": data.tolist(), "dtype": dtype,
                       "shape": list(shape)},
                 "stored": rng.random() < self.leaf_store_prob}
        else:
            name = f"in{r}_{self.ninputs[r]}"
            self.ninputs[r] += 1
            v = {"rank": r, "op": "input", "args": [],
                 "p": {"name": name, "data": data.tolist(), "dtype": dtype,
                       "shape": list(shape)},
                 "stored": rng.random() < self.leaf_store_prob}
        return self.add_val(v, data)

    def new_tag(self):
        rng = self.rng
        kind = rng.choice(self.tag_kinds)
        if self.comms and rng.random() < 0.08:
            # reuse a symbolic tag id on (very likely) another rank pair
            k = rng.choice(self.comms)["tag"][1]
        else:
            self.tagctr += 1
            k = self.tagctr
        return [kind, k]

    def add_comm(self, src_val, dst):
        """send value src_val to rank dst; returns the recv value id"""
        src = self.vals[src_val]["rank"]
        assert src != dst
        tag = self.new_tag()
        # (src, dst, tag) must be unique
        while any(c["src"] == src and c["dst"] == dst and c["tag"] == tag
                  for c in self.comms):
            self.tagctr += 1
            tag = [tag[0], self.tagctr]
        self.budget -= 1
        ci = len(self.comms)
        rv = self.add_val({"rank": dst, "op": "recv", "args": [],
                           "p": {"comm": ci},
                           "stored": self.rng.random() < self.leaf_store_prob},
                          self.np[src_val])
        self.comms.append({"src_val": src_val, "src": src, "dst": dst,
                           "tag": tag, "recv_val": rv, "staple": None})
        return rv

    def local_arg(self, r, want_other=True):
        """a value usable on rank r; may create a message"""
        rng = self.rng
        mine = [i for i, v in enumerate(self.vals) if v["rank"] == r]
        if want_other and self.budget > 0 and self.n > 1 and rng.random() < 0.35:
            others = [i for i, v in enumerate(self.vals) if v["rank"] != r]
            if others:
                a = rng.choice(others)
                # an existing receive of the same value may be reused
                again = [c["recv_val"] for c in self.comms
                         if c["src_val"] == a and c["dst"] == r]
                if again and rng.random() < 0.5:
                    return again[0]
                return self.add_comm(a, r)
        if not mine:
            return self.add_input(r)
        # bias towards recent values: deeper graphs
        if rng.random() < 0.5:
            return mine[-1 - min(int(rng.expovariate(0.7)), len(mine) - 1)]
        return rng.choice(mine)

    def add_op(self, r, op=None, args=None):
        rng = self.rng
        for _attempt in range(12):
            o = op or rng.choices([w[0] for w in OP_WEIGHTS],
                                  [w[1] for w in OP_WEIGHTS])[0]
            budget0, nv0, nc0 = self.budget, len(self.vals), len(self.comms)
            tag0 = self.tagctr
            a = args if args is not None else \
                [self.local_arg(r) for _ in range(ARITY[o])]
            vals = [self.np[i] for i in a]
            p = _draw_params(rng, o, vals)
            res = None
            if p is not None:
                try:
                    with np.errstate(all="raise"):
                        res = np.asarray(_np_op(o, vals, p))
                except Exception:  # noqa: BLE001
                    res = None
            ok = (res is not None and res.ndim <= 3 and res.size <= MAX_SIZE
                  and res.dtype in (np.dtype("int64"), np.dtype("float64"))
                  and (res.size == 0
                       or (np.all(np.isfinite(res))
                           and np.max(np.abs(res)) <= BOUND)))
            if ok:
                v = {"rank": r, "op": o, "args": list(a), "p": p,
                     "stored": rng.random() < self.store_prob}
                return self.add_val(v, res)
            # undo any messages created for rejected arguments
            del self.vals[nv0:]
            del self.np[nv0:]
            del self.comms[nc0:]
            self.budget = budget0
            self.tagctr = tag0
            if args is not None:
                return None
        return None

    def template(self, name):
        rng = self.rng
        n = self.n
        heads = [self.add_input(r) for r in range(n)]
        if n < 2:
            return
        if name == "ring":
            for r in range(n):
                if self.budget <= 0:
                    break
                rv = self.add_comm(heads[r], (r + 1) % n)
                self.add_op((r + 1) % n, "addc", [rv])
        elif name == "star":
            got = []
            for r in range(1, n):
                if self.budget <= 0:
                    break
                got.append(self.add_comm(heads[r], 0))
            acc = heads[0]
            for g in got:
                nxt = self.add_op(0, "sumb", [g])
                acc = nxt if nxt is not None else acc
            for r in range(1, n):
                if self.budget <= 0:
                    break
                self.add_comm(acc, r)
        elif name == "chain":
            cur = heads[0]
            for r in range(1, n):
                if self.budget <= 0:
                    break
                rv = self.add_comm(cur, r)
                nxt = self.add_op(r, rng.choice(["addc", "mulc", "neg"]), [rv])
                cur = nxt if nxt is not None else rv
        elif name == "pingpong":
            a, b = rng.sample(range(n), 2)
            cur = heads[a]
            where = a
            for _ in range(rng.randint(2, 4)):
                if self.budget <= 0:
                    break
                dst = b if where == a else a
                rv = self.add_comm(cur, dst)
                nxt = self.add_op(dst, rng.choice(["addc", "neg", "sumb"]), [rv])
                cur = nxt if nxt is not None else rv
                where = dst
        elif name == "fanout":
            src = rng.randrange(n)
            v = self.add_op(src, "addc", [heads[src]])
            v = v if v is not None else heads[src]
            for r in range(n):
                if r != src and self.budget > 0:
                    self.add_comm(v, r)
        elif name == "multi":
            a, b = rng.sample(range(n), 2)
            for _ in range(rng.randint(2, 3)):
                if self.budget <= 0:
                    break
                v = self.add_op(a, None, None)
                if v is not None and self.vals[v]["rank"] == a:
                    self.add_comm(v, b)
        elif name == "crossing":
            # several inputs / stored intermediates of one rank are used both
            # by a payload sent early and by a consumer of data received later
            a, b = rng.sample(range(n), 2)
            leaves = [heads[a]]
            for _ in range(rng.randint(1, 3)):
                leaves.append(self.add_input(a))
            same = [v for v in leaves if self.np[v].shape == self.np[leaves[0]].shape]
            crossing = []
            for v in leaves:
                if rng.random() < 0.5:
                    w = self.add_op(a, rng.choice(["addc", "mulc", "neg"]), [v])
                    if w is not None:
                        self.vals[w]["stored"] = True
                        v = w
                crossing.append(v)
            pay = crossing[0]
            for v in crossing[1:]:
                nxt = self.add_op(a, rng.choice(["add", "mul", "sub"]), [pay, v])
                pay = nxt if nxt is not None else pay
            if self.budget >= 2:
                rv = self.add_comm(pay, b)
                back = self.add_op(b, rng.choice(["addc", "neg", "sumb"]), [rv])
                back = back if back is not None else rv
                rb = self.add_comm(back, a)
                acc = rb
                order = crossing[:]
                rng.shuffle(order)
                for v in order:
                    nxt = self.add_op(a, rng.choice(["add", "mul", "sub"]), [acc, v])
                    acc = nxt if nxt is not None else acc
                if rng.random() < 0.5:
                    self.vals[acc]["stored"] = True
        elif name == "gathersum":
            # reduction / relay towards a root: one send whose payload combines
            # two or more receives with different communication ids
            root = rng.choice([0, 0, rng.randrange(n)])
            mids = [r for r in range(n) if r != root]
            m = rng.choice(mids)
            srcs = [r for r in range(n) if r != m]
            got = []
            for _ in range(rng.randint(2, 3)):
                if self.budget <= 1:
                    break
                sr = rng.choice(srcs)
                sv = heads[sr] if rng.random() < 0.6 else \
                    (self.add_op(sr, "addc", [heads[sr]]) or heads[sr])
                got.append(self.add_comm(sv, m))
            acc = None
            for g in got:
                red = self.add_op(m, "sum", [g]) if rng.random() < 0.7 else g
                red = red if red is not None else g
                if acc is None:
                    acc = red
                else:
                    nxt = self.add_op(m, rng.choice(["add", "mul"]), [acc, red])
                    acc = nxt if nxt is not None else acc
            if acc is not None and self.budget > 0:
                rv = self.add_comm(acc, root)
                self.add_op(root, "addc", [rv])
        elif name == "holdercross":
            # a send S (payload depends on a receive R) stapled onto a value x
            # that is part of the payload of an EARLIER send S2 to the rank
            # that computes R from S2: true order S2, R, S
            a, b = rng.sample(range(n), 2)
            x = heads[a]
            x2 = self.add_op(a, rng.choice(["addc", "mulc", "neg"]), [x])
            x2 = x2 if x2 is not None else x
            if self.budget >= 3:
                pay2 = self.add_op(a, rng.choice(["addc", "sumb", "neg"]), [x2])
                pay2 = pay2 if pay2 is not None else x2
                r_b = self.add_comm(pay2, b)                      # S2: a -> b
                back = self.add_op(b, rng.choice(["addc", "neg"]), [r_b])
                back = back if back is not None else r_b
                r_a = self.add_comm(back, a)                      # R: b -> a
                pay = self.add_op(a, rng.choice(["addc", "mulc"]), [r_a])
                pay = pay if pay is not None else r_a
                dst = rng.choice([q for q in range(n) if q != a])
                self.add_comm(pay, dst)                           # S: a -> dst
                self.comms[-1]["staple_hint"] = ["val", x2]
                use = self.add_op(a, "add", [pay2, r_a])
                if use is not None:
                    if rng.random() < 0.5:
                        self.vals[use]["stored"] = True
                    self.forced_outs.append(use)
                else:
                    self.forced_outs.append(pay2)
        elif name == "csr":
            # a sparse matrix whose component arrays live on rank a; two or
            # three of them travel to rank b, which multiplies
            a, b = rng.sample(range(n), 2)
            nrows, ncols = rng.randint(1, 3), rng.randint(1, 3)
            counts = [rng.randint(0, ncols) for _ in range(nrows)]
            rows_ = [0]
            cols_: list = []
            for c in counts:
                cols_ += sorted(rng.sample(range(ncols), c))
                rows_.append(rows_[-1] + c)
            vals_ = [float(rng.randint(-4, 4)) for _ in cols_]

            def leaf(r, data, dtype):
                arr = np.array(data, dtype=dtype)
                nm = f"in{r}_{self.ninputs[r]}"
                self.ninputs[r] += 1
                return self.add_val(
                    {"rank": r, "op": "input", "args": [],
                     "p": {"name": nm, "data": arr.tolist(), "dtype": dtype,
                           "shape": list(arr.shape)},
                     "stored": rng.random() < self.leaf_store_prob}, arr)
            comps = [leaf(a, vals_, "float64"), leaf(a, cols_, "int64"),
                     leaf(a, rows_, "int64")]
            nremote = min(rng.choice([2, 2, 3]), max(self.budget, 0))
            remote = set(rng.sample(range(3), nremote))
            at_b = []
            for k, cv in enumerate(comps):
                if k in remote:
                    at_b.append(self.add_comm(cv, b))
                else:
                    at_b.append(leaf(b, self.np[cv].tolist(),
                                     str(self.np[cv].dtype)))
            x = leaf(b, [float(rng.randint(-3, 3)) for _ in range(ncols)],
                     "float64")
            res = np.asarray(_np_op("csrmv", [self.np[i] for i in [*at_b, x]],
                                    {}))
            y = self.add_val({"rank": b, "op": "csrmv", "args": [*at_b, x],
                              "p": {"nrows": nrows, "ncols": ncols},
                              "stored": rng.random() < self.store_prob}, res)
            self.forced_outs.append(y)
            if self.budget > 0 and rng.random() < 0.5:
                rv = self.add_comm(y, a)
                self.add_op(a, "addc", [rv])
        elif name == "forward":
            order = list(range(n))
            rng.shuffle(order)
            cur = heads[order[0]]
            for r in order[1:] + ([order[0]] if n > 2 else []):
                if self.budget <= 0:
                    break
                if self.vals[cur]["rank"] == r:
                    break
                cur = self.add_comm(cur, r)      # received data re-sent unchanged


def gen_recipe(rng: random.Random, *, max_ranks=4, max_comm=6) -> dict:
    nranks = rng.choices([1, 2, 3, 4][:max_ranks], [1, 5, 4, 3][:max_ranks])[0]
    ncomm = rng.randint(0, max_comm) if nranks > 1 else 0
    nvals = rng.randint(1, 12)
    g = _Gen(rng, nranks, ncomm, nvals)
    tmpl = rng.choice(TEMPLATES)
    if tmpl == "none":
        for r in range(nranks):
            g.add_input(r)
    else:
        g.template(tmpl)
    for _ in range(nvals):
        r = rng.randrange(nranks)
        if rng.random() < 0.15:
            g.add_input(r)
        else:
            g.add_op(r)
    # enrichment moves: relations between communication operations that plain
    # growth produces only rarely (each keeps the global data flow acyclic: a
    # new message only creates a new leaf receive used by new values)
    if nranks > 1 and ncomm > 0:
        # keep room for two of them (never beyond max_comm messages in total)
        g.budget = max(g.budget, min(2, max_comm - len(g.comms)))
    for _ in range(rng.randint(0, 4)):
        if nranks < 2:
            break
        move = rng.choice(["resend", "combine", "store", "relay", "reuse",
                           "consume"])
        if move == "resend" and g.comms and g.budget > 0:
            # the same array sent again: to another peer, or to the same peer
            # under another tag
            c = rng.choice(g.comms)
            dsts = [r for r in range(nranks) if r != c["src"]]
            g.add_comm(c["src_val"], rng.choice(dsts))
        elif move == "combine" and g.budget > 0:
            # one payload computed from two or more receives
            r = rng.randrange(nranks)
            recvs = [i for i, v in enumerate(g.vals)
                     if v["rank"] == r and v["op"] == "recv"]
            if len(recvs) >= 2:
                a, b = rng.sample(recvs, 2)
                ra = g.add_op(r, "sum", [a])
                rb = g.add_op(r, "sum", [b])
                if ra is not None and rb is not None:
                    v = g.add_op(r, rng.choice(["add", "mul", "sub"]), [ra, rb])
                    if v is not None:
                        dsts = [q for q in range(nranks) if q != r]
                        g.add_comm(v, rng.choice(dsts))
        elif move == "store":
            # stored arrays in communication-relevant places: payloads,
            # receives, values computed from receives
            cands = [c["src_val"] for c in g.comms] \
                + [c["recv_val"] for c in g.comms]
            cands += [i for i, v in enumerate(g.vals)
                      if any(g.vals[a]["op"] == "recv" for a in v["args"])]
            if cands:
                g.vals[rng.choice(cands)]["stored"] = True
        elif move == "relay" and g.comms and g.budget > 0:
            # received data sent on: unchanged, or after one operation
            c = rng.choice(g.comms)
            r = c["dst"]
            v = c["recv_val"]
            if rng.random() < 0.5:
                w = g.add_op(r, rng.choice(["addc", "neg", "mulc"]), [v])
                v = w if w is not None else v
            dsts = [q for q in range(nranks) if q != r]
            g.add_comm(v, rng.choice(dsts))
        elif move == "reuse" and g.comms:
            # a payload that is ALSO used locally after the send
            c = rng.choice(g.comms)
            g.add_op(c["src"], rng.choice(["addc", "sumb", "neg"]),
                     [c["src_val"]])
        elif move == "consume" and g.comms:
            # a receive consumed by two different local computations
            c = rng.choice(g.comms)
            g.add_op(c["dst"], "addc", [c["recv_val"]])
            g.add_op(c["dst"], "sumb", [c["recv_val"]])
    # leftover budget: plain transfers (receive used only as output / payload)
    while g.budget > 0 and nranks > 1 and rng.random() < 0.5:
        a = rng.randrange(len(g.vals))
        dsts = [r for r in range(nranks) if r != g.vals[a]["rank"]]
        g.add_comm(a, rng.choice(dsts))
    outs = []
    for r in range(nranks):
        mine = [i for i, v in enumerate(g.vals) if v["rank"] == r]
        k = rng.randint(1, 3)
        # prefer late values so most of the graph is live
        picks = []
        for j in range(k):
            if rng.random() < 0.6:
                picks.append(mine[-1 - min(int(rng.expovariate(0.8)),
                                            len(mine) - 1)])
            else:
                picks.append(rng.choice(mine))
        picks += [v for v in g.forced_outs if g.vals[v]["rank"] == r]
        for j, vi in enumerate(picks):
            outs.append({"rank": r, "name": f"out{j}", "val": vi})
    recipe = {"nranks": nranks, "vals": g.vals, "comms": g.comms, "outs": outs,
              "mpms": rng.random() < 0.35, "template": tmpl,
              "dup_out": rng.random() < 0.2}
    if recipe["dup_out"]:
        o = rng.choice(outs)
        recipe["outs"].append({"rank": o["rank"], "name": "dup_" + o["name"],
                               "val": o["val"]})
    assign_staples(recipe, rng)
    return recipe


def live_sets(recipe):
    """(live values, live comm indices): what is reachable from the outputs
    through arguments and through receive -> matching send payload"""
    vals, comms = recipe["vals"], recipe["comms"]
    live = set()
    work = [o["val"] for o in recipe["outs"]]
    pair = recipe.get("cycle_pair")
    while work:
        i = work.pop()
        if i in live:
            continue
        live.add(i)
        v = vals[i]
        work.extend(v["args"])
        if v["op"] == "recv":
            ci = v["p"]["comm"]
            work.append(comms[ci]["src_val"])
            if pair is not None and ci == pair[0]:
                # close-cycle fault: the partner message is used by ci's payload
                work.append(comms[pair[1]]["recv_val"])
    livec = [ci for ci, c in enumerate(comms)
             if c["recv_val"] in live and vals[c["recv_val"]]["op"] == "recv"
             and vals[c["recv_val"]]["p"]["comm"] == ci]
    return live, livec


def _arg_reachable(recipe, rank):
    """values of *rank* reachable from its outputs through arguments only (a
    holder stapled onto one of them is certainly part of the rank's graph)"""
    seen = set()
    work = [o["val"] for o in recipe["outs"] if o["rank"] == rank]
    while work:
        i = work.pop()
        if i in seen:
            continue
        seen.add(i)
        work.extend(recipe["vals"][i]["args"])
    return seen


def assign_staples(recipe, rng):
    """every live send must be reachable from its rank's outputs: staple it to
    an output or to a later live intermediate value of the sending rank"""
    live, livec = live_sets(recipe)
    # a hinted staple may sit BELOW its payload; combined with free staples on
    # intermediates this could ask for a graph that contains itself, so the
    # other sends of such a recipe go onto outputs
    hinted = any("staple_hint" in c for c in recipe["comms"])
    for ci in livec:
        c = recipe["comms"][ci]
        outs = [oi for oi, o in enumerate(recipe["outs"]) if o["rank"] == c["src"]]
        inter = [i for i in sorted(live)
                 if recipe["vals"][i]["rank"] == c["src"] and i > c["src_val"]]
        hint = c.pop("staple_hint", None)
        if hint is not None and hint[1] in _arg_reachable(recipe, c["src"]):
            # (a hint may name a value BEFORE src_val: the holder then sits
            # inside the payload of an earlier send; legal, see build_rank)
            c["staple"] = list(hint)
        elif inter and not hinted and rng.random() < 0.4:
            c["staple"] = ["val", rng.choice(inter)]
        else:
            c["staple"] = ["out", rng.choice(outs)]

# }}}


# {{{ recipe-level oracle

def evaluate_recipe(recipe):
    """NumPy value of every recipe value (a receive has the value of the
    payload of its message).  Independent of pytato."""
    vals, comms = recipe["vals"], recipe["comms"]
    res: list = [None] * len(vals)
    for i, v in enumerate(vals):
        if v["op"] in ("input", "dw"):
            res[i] = np.array(v["p"]["data"], dtype=v["p"]["dtype"]).reshape(
                tuple(v["p"]["shape"]))
        elif v["op"] == "recv":
            res[i] = res[comms[v["p"]["comm"]]["src_val"]]
        else:
            res[i] = np.asarray(_np_op(v["op"], [res[j] for j in v["args"]],
                                       v["p"]))
    return res


def expected_outputs(recipe, npvals=None):
    if npvals is None:
        npvals = evaluate_recipe(recipe)
    exp: list = [dict() for _ in range(recipe["nranks"])]
    for o in recipe["outs"]:
        exp[o["rank"]][o["name"]] = npvals[o["val"]]
    return exp


def rank_inputs(recipe, r):
    return {v["p"]["name"]: np.array(v["p"]["data"], dtype=v["p"]["dtype"])
            .reshape(tuple(v["p"]["shape"]))
            for v in recipe["vals"] if v["op"] == "input" and v["rank"] == r}

# }}}


# {{{ builder (public pytato API only) with C10 fault operators

FAULT_KINDS = ("drop-send", "drop-recv", "dup-send", "dup-recv", "retag-send",
               "retag-recv", "redirect-send", "redirect-recv", "self-send",
               "self-recv", "self-loop", "dup-send-nested", "close-cycle")


def build_rank(recipe, r, npvals=None, faults=(), localise=False):
    """DictOfNamedArrays of rank r (deduplicated, optionally MPMS-materialised).

    *localise*: build the communication-free control graph of the rank: every
    receive becomes a placeholder, no send is stapled."""
    import pytato as pt
    from pytato.distributed.nodes import DistributedSendRefHolder
    from pytato.tags import ImplStored

    vals, comms = recipe["vals"], recipe["comms"]
    if npvals is None:
        npvals = evaluate_recipe(recipe)
    live, livec = live_sets(recipe)
    fault_of: dict = {}
    for f in faults:
        fault_of.setdefault(f["comm"], []).append(f)
    built: dict = {}
    extra: list = []          # arrays that must be kept alive via the first output

    def kinds(ci):
        return [f["kind"] for f in fault_of.get(ci, ())]

    def fault(ci, kind):
        for f in fault_of.get(ci, ()):
            if f["kind"] == kind:
                return f
        return None

    def tag_of(ci, side):
        c = comms[ci]
        if f"retag-{side}" in kinds(ci):
            return mk_tag(["RETAG", c["tag"][1]])
        return mk_tag(c["tag"])

    def make_recv(ci, shape, dtype):
        c = comms[ci]
        ks = kinds(ci)
        src = c["src"]
        if "redirect-recv" in ks:
            src = fault(ci, "redirect-recv")["alt"]
        if "self-recv" in ks:
            src = r
        res = pt.make_distributed_recv(src, tag_of(ci, "recv"), shape, dtype)
        if "dup-recv" in ks:
            # a second receive for the same (src, dst, tag); another dtype so
            # that it is a different node after deduplication
            other = np.float32 if np.dtype(dtype) != np.float32 else np.float64
            extra.append(pt.make_distributed_recv(
                src, tag_of(ci, "recv"), shape, other))
        return res

    def raw(i):
        v = vals[i]
        assert v["rank"] == r, (i, v["rank"], r)
        nv = npvals[i]
        if v["op"] == "input":
            res = pt.make_placeholder(v["p"]["name"], tuple(v["p"]["shape"]),
                                      np.dtype(v["p"]["dtype"]))
        elif v["op"] == "dw":
            res = pt.make_data_wrapper(np.array(nv, copy=True))
        elif v["op"] == "recv":
            ci = v["p"]["comm"]
            if localise:
                res = pt.make_placeholder(f"lrecv{ci}", nv.shape, nv.dtype)
            elif "drop-recv" in kinds(ci):
                res = pt.make_placeholder(f"dropped{ci}", nv.shape, nv.dtype)
            else:
                res = make_recv(ci, nv.shape, nv.dtype)
        else:
            args = [get(j) for j in v["args"]]
            res = _pt_op(v["op"], args, v["p"])
            if not isinstance(res, pt.Array):
                res = pt.make_data_wrapper(np.asarray(res))   # folded constant
            if any(res is a for a in args):
                # the operation handed back its argument unchanged (roll by 0,
                # reshape to the same shape): tagging it would create a second,
                # different node for what the recipe means to be one value
                return res
        if v["stored"] and not isinstance(res, DistributedSendRefHolder):
            # (an operation may hand back its argument unchanged, which may be
            # a send holder; holders cannot be tagged)
            res = res.tagged(ImplStored())
        return res

    def payload(ci):
        c = comms[ci]
        data = get(c["src_val"])
        f = fault(ci, "close-cycle")
        if f is not None:
            # c1's payload additionally depends on data received from c2 (which
            # in turn depends on c1's data on the peer rank): a cross-rank cycle
            c2 = f["via"]
            nv2 = npvals[comms[c2]["src_val"]] if c2 < len(comms) else None
            rv = make_recv(c2, nv2.shape, nv2.dtype)
            data = data + pt.sum(rv)
        return data

    def staple_all(i_kind, i_idx, expr):
        if localise:
            return expr
        for ci in livec:
            c = comms[ci]
            if c["src"] != r or c["staple"] != [i_kind, i_idx]:
                continue
            ks = kinds(ci)
            if "drop-send" in ks:
                continue
            dst = c["dst"]
            if "redirect-send" in ks:
                dst = fault(ci, "redirect-send")["alt"]
            if "self-send" in ks:
                dst = r
            if "dup-send-nested" in ks:
                # two sends with one id, the first inside the PAYLOAD of the
                # second (not below its passthrough)
                inner = pt.staple_distributed_send(
                    payload(ci), dst, tag_of(ci, "send"), stapled_to=payload(ci))
                expr = pt.staple_distributed_send(
                    inner + 1, dst, tag_of(ci, "send"), stapled_to=expr)
                continue
            expr = pt.staple_distributed_send(
                payload(ci), dst, tag_of(ci, "send"), stapled_to=expr)
            if "dup-send" in ks:
                expr = pt.staple_distributed_send(
                    payload(ci) + 1, dst, tag_of(ci, "send"), stapled_to=expr)
            if "self-loop" in ks:
                # an additional, matched message from this rank to itself
                data = payload(ci)
                stag = mk_tag([c["tag"][0] if c["tag"][0] != "int" else "str",
                               1000 + c["tag"][1]])
                expr = pt.staple_distributed_send(data, r, stag, stapled_to=expr)
                extra.append(pt.make_distributed_recv(r, stag, data.shape,
                                                      data.dtype))
        return expr

    building: set = set()
    raws: dict = {}

    def get(i):
        if i in built:
            return built[i]
        if i in building:
            # the payload of a send stapled onto value i uses value i itself:
            # it sees the plain value (a holder cannot contain itself)
            return raws[i]
        building.add(i)
        raws[i] = raw(i)
        res = staple_all("val", i, raws[i])
        building.discard(i)
        built[i] = res
        return res

    outs: dict = {}
    for oi, o in enumerate(recipe["outs"]):
        if o["rank"] != r:
            continue
        outs[o["name"]] = staple_all("out", oi, get(o["val"]))
    if localise:
        # the control graph must compile the same expressions the parts do:
        # every payload becomes an output
        for ci in livec:
            if comms[ci]["src"] == r:
                outs[f"lsend{ci}"] = get(comms[ci]["src_val"])
    if extra:
        # keep the duplicated receive reachable from the rank's first output
        k = sorted(outs)[0]
        e = outs[k]
        for x in extra:
            e = e + pt.sum(x.astype(np.float64)) * 0
        outs[k] = e
    d = pt.transform.deduplicate(pt.make_dict_of_named_arrays(outs))
    if recipe.get("mpms"):
        from pytato.transform.materialize import materialize_with_mpms
        d = materialize_with_mpms(d)
    return d


def enumerate_faults(recipe):
    """every single fault at every live communication operation"""
    _live, livec = live_sets(recipe)
    n = recipe["nranks"]
    out = []
    for ci in livec:
        c = recipe["comms"][ci]
        for kind in FAULT_KINDS:
            f = {"comm": ci, "kind": kind}
            if kind.startswith("redirect"):
                alts = [q for q in range(n) if q not in (c["src"], c["dst"])]
                if not alts:
                    continue
                f["alt"] = alts[0]
            if kind == "close-cycle":
                continue          # needs a synthesised partner: see close_cycle()
            out.append(f)
    return out


def close_cycle(recipe, ci):
    """Return (recipe', fault) where the payload of live comm *ci* (a -> b)
    additionally depends on data that b computes from what it received through
    *ci* and sends back: c1 -> c2 -> c1 across ranks.  Each rank's local graph
    stays acyclic (a receive is a leaf)."""
    rc = copy.deepcopy(recipe)
    c1 = rc["comms"][ci]
    a, b = c1["src"], c1["dst"]
    # synthesise c2 = b -> a carrying (recv_c1 + 1); tag chosen fresh
    vals = rc["vals"]
    back = {"rank": b, "op": "addc", "args": [c1["recv_val"]], "p": {"c": 1},
            "stored": False}
    vals.append(back)
    back_id = len(vals) - 1
    tagid = 1 + max([c["tag"][1] for c in rc["comms"]] + [0])
    vals.append({"rank": a, "op": "recv", "args": [],
                 "p": {"comm": len(rc["comms"])}, "stored": False})
    rv = len(vals) - 1
    outs_b = [oi for oi, o in enumerate(rc["outs"]) if o["rank"] == b]
    rc["comms"].append({"src_val": back_id, "src": b, "dst": a,
                        "tag": ["int", tagid], "recv_val": rv,
                        "staple": ["out", outs_b[0]]})
    c2 = len(rc["comms"]) - 1
    rc["cycle_pair"] = [ci, c2]
    return rc, {"comm": ci, "kind": "close-cycle", "via": c2}

def close_cycle3(recipe, ci):
    """Like close_cycle, but the cycle runs through three ranks:
    c1 = a -> b (the live comm *ci*), c2 = b -> c carrying data computed from
    c1, c3 = c -> a carrying data computed from c2, and c1's payload additionally
    depends on c3.  Needs a third rank."""
    n = recipe["nranks"]
    rc = copy.deepcopy(recipe)
    c1 = rc["comms"][ci]
    a, b = c1["src"], c1["dst"]
    others = [q for q in range(n) if q not in (a, b)]
    if not others:
        return None
    c = others[0]
    vals = rc["vals"]
    tagid = 1 + max([x["tag"][1] for x in rc["comms"]] + [0])

    def out_of(rank):
        return [oi for oi, o in enumerate(rc["outs"]) if o["rank"] == rank][0]
    vals.append({"rank": b, "op": "addc", "args": [c1["recv_val"]],
                 "p": {"c": 1}, "stored": False})
    v_b = len(vals) - 1
    vals.append({"rank": c, "op": "recv", "args": [],
                 "p": {"comm": len(rc["comms"])}, "stored": False})
    r_c = len(vals) - 1
    rc["comms"].append({"src_val": v_b, "src": b, "dst": c,
                        "tag": ["int", tagid], "recv_val": r_c,
                        "staple": ["out", out_of(b)]})
    c2 = len(rc["comms"]) - 1
    vals.append({"rank": c, "op": "addc", "args": [r_c], "p": {"c": 2},
                 "stored": False})
    v_c = len(vals) - 1
    vals.append({"rank": a, "op": "recv", "args": [],
                 "p": {"comm": len(rc["comms"])}, "stored": False})
    r_a = len(vals) - 1
    rc["comms"].append({"src_val": v_c, "src": c, "dst": a,
                        "tag": ["int", tagid + 1], "recv_val": r_a,
                        "staple": ["out", out_of(c)]})
    c3 = len(rc["comms"]) - 1
    rc["cycle_pair"] = [ci, c3]
    rc["cycle_chain"] = [ci, c2, c3]
    return rc, {"comm": ci, "kind": "close-cycle", "via": c3}

# }}}


# {{{ structure probes (workload reach measures)

def probes(recipe):
    vals, comms = recipe["vals"], recipe["comms"]
    live, livec = live_sets(recipe)
    p = {}
    lc = [comms[ci] for ci in livec]
    p["forwarded_recv"] = any(vals[c["src_val"]]["op"] == "recv" for c in lc)
    users: dict = {}
    for i in live:
        for a in vals[i]["args"]:
            users.setdefault(a, []).append(i)
    outvals = [o["val"] for o in recipe["outs"]]
    p["recv_only_via_holder"] = any(
        c["recv_val"] not in users and c["recv_val"] not in outvals
        and any(d["src_val"] == c["recv_val"] for d in lc) for c in lc)
    p["output_is_input"] = any(vals[v]["op"] in ("input", "dw") for v in outvals)
    p["output_is_recv"] = any(vals[v]["op"] == "recv" for v in outvals)
    p["dup_output_array"] = len(set((o["rank"], o["val"])
                                    for o in recipe["outs"])) < len(recipe["outs"])
    pairs = [(c["src"], c["dst"]) for c in lc]
    p["multi_msg_same_pair"] = len(set(pairs)) < len(pairs)
    sv = [c["src_val"] for c in lc]
    p["same_array_two_peers"] = len(set(sv)) < len(sv)
    p["stored_on_recv"] = any(vals[c["recv_val"]]["stored"] for c in lc)
    p["stored_interior"] = any(vals[i]["stored"] for i in live
                               if vals[i]["op"] not in ("input", "dw", "recv"))
    p["send_depends_on_recv"] = False
    dep_recv = {}
    for i in sorted(live):
        v = vals[i]
        dep_recv[i] = v["op"] == "recv" or any(dep_recv.get(a, False)
                                               for a in v["args"])
    p["send_depends_on_recv"] = any(
        dep_recv[c["src_val"]] and vals[c["src_val"]]["op"] != "recv" for c in lc)
    p["rank_without_comm"] = any(
        all(c["src"] != r and c["dst"] != r for c in lc)
        for r in range(recipe["nranks"])) and recipe["nranks"] > 1
    def _size(v):
        cur = vals[v]
        while cur["op"] == "recv":
            cur = vals[comms[cur["p"]["comm"]]["src_val"]]
        if cur["op"] in ("input", "dw"):
            return int(np.prod(cur["p"]["shape"])) if cur["p"]["shape"] else 1
        return None
    p["zero_size_message"] = any(_size(c["src_val"]) == 0 for c in lc)
    p["mpms"] = bool(recipe.get("mpms"))
    p["csr_matmul_with_received_components"] = any(
        vals[i]["op"] == "csrmv" and sum(
            1 for a in vals[i]["args"][:3] if vals[a]["op"] == "recv") >= 2
        for i in live)
    p["loopy_call_in_distributed_dag"] = any(
        vals[i]["op"] == "lpcall" for i in live)
    p["staple_on_intermediate"] = any(c["staple"][0] == "val" for c in lc)
    p["shared_sym_tag"] = len({tuple(c["tag"]) for c in lc}) < len(lc)
    p["ncomm_live"] = len(lc)
    return p

# }}}


# {{{ shrinking

def _renumber(recipe):
    """drop values not reachable from the outputs (keeps ids dense)"""
    live, livec = live_sets(recipe)
    keep = sorted(live)
    new_id = {old: new for new, old in enumerate(keep)}
    comm_new = {old: new for new, old in enumerate(livec)}
    vals = []
    for old in keep:
        v = copy.deepcopy(recipe["vals"][old])
        v["args"] = [new_id[a] for a in v["args"]]
        if v["op"] == "recv":
            v["p"] = {"comm": comm_new[v["p"]["comm"]]}
        vals.append(v)
    comms = []
    for ci in livec:
        c = copy.deepcopy(recipe["comms"][ci])
        c["src_val"] = new_id[c["src_val"]]
        c["recv_val"] = new_id[c["recv_val"]]
        if c["staple"] is not None and c["staple"][0] == "val":
            if c["staple"][1] in new_id:
                c["staple"] = ["val", new_id[c["staple"][1]]]
            else:
                c["staple"] = None
        comms.append(c)
    out = dict(recipe)
    out["vals"] = vals
    out["comms"] = comms
    out["outs"] = [dict(o, val=new_id[o["val"]]) for o in recipe["outs"]]
    for c in out["comms"]:
        if c["staple"] is None or (c["staple"][0] == "out"
                                   and (c["staple"][1] >= len(out["outs"])
                                        or out["outs"][c["staple"][1]]["rank"]
                                        != c["src"])):
            outs = [oi for oi, o in enumerate(out["outs"])
                    if o["rank"] == c["src"]]
            c["staple"] = ["out", outs[0]]
    return out


def shrink_candidates(recipe):
    """simpler recipes, most aggressive first; every candidate is valid"""
    npvals = evaluate_recipe(recipe)
    n = recipe["nranks"]
    # 1. drop an output (each rank keeps at least one)
    for oi, o in enumerate(recipe["outs"]):
        if sum(1 for q in recipe["outs"] if q["rank"] == o["rank"]) > 1:
            rc = copy.deepcopy(recipe)
            del rc["outs"][oi]
            for c in rc["comms"]:
                if c["staple"] and c["staple"][0] == "out":
                    if c["staple"][1] == oi:
                        c["staple"] = None
                    elif c["staple"][1] > oi:
                        c["staple"] = ["out", c["staple"][1] - 1]
            yield _renumber(rc)
    # 2. replace a value by a constant input holding its value (cuts everything
    #    above it, including messages)
    for i in range(len(recipe["vals"]) - 1, -1, -1):
        v = recipe["vals"][i]
        if v["op"] in ("input", "dw"):
            continue
        rc = copy.deepcopy(recipe)
        nv = npvals[i]
        rc["vals"][i] = {"rank": v["rank"], "op": "input", "args": [],
                         "p": {"name": f"c{v['rank']}_{i}", "data": nv.tolist(),
                               "dtype": str(nv.dtype), "shape": list(nv.shape)},
                         "stored": False}
        yield _renumber(rc)
    # 3. point an output at an argument of its value
    for oi, o in enumerate(recipe["outs"]):
        for a in recipe["vals"][o["val"]]["args"]:
            if recipe["vals"][a]["rank"] == o["rank"]:
                rc = copy.deepcopy(recipe)
                rc["outs"][oi]["val"] = a
                yield _renumber(rc)
    # 4. clear flags
    if recipe.get("mpms"):
        yield dict(copy.deepcopy(recipe), mpms=False)
    for i, v in enumerate(recipe["vals"]):
        if v["stored"]:
            rc = copy.deepcopy(recipe)
            rc["vals"][i]["stored"] = False
            yield rc
    for ci, c in enumerate(recipe["comms"]):
        if c["staple"] and c["staple"][0] == "val":
            rc = copy.deepcopy(recipe)
            rc["comms"][ci]["staple"] = None
            yield _renumber(rc)
        if c["tag"][0] != "int":
            rc = copy.deepcopy(recipe)
            rc["comms"][ci]["tag"] = ["int", 100 + ci]
            yield rc
    # 5. drop a rank nobody talks to
    _live, livec = live_sets(recipe)
    for r in range(n):
        if n > 1 and all(recipe["comms"][ci]["src"] != r
                         and recipe["comms"][ci]["dst"] != r for ci in livec):
            rc = _renumber(copy.deepcopy(recipe))
            rc["outs"] = [o for o in rc["outs"] if o["rank"] != r]
            rc = _renumber(rc)

            def m(q):
                return q - 1 if q > r else q
            for v in rc["vals"]:
                v["rank"] = m(v["rank"])
            for c in rc["comms"]:
                c["src"], c["dst"] = m(c["src"]), m(c["dst"])
            for o in rc["outs"]:
                o["rank"] = m(o["rank"])
            rc["nranks"] = n - 1
            for c in rc["comms"]:
                if c["staple"][0] == "out":
                    outs = [oi for oi, o in enumerate(rc["outs"])
                            if o["rank"] == c["src"]]
                    if c["staple"][1] not in outs:
                        c["staple"] = ["out", outs[0]]
            yield rc


def recipe_size(recipe):
    return (recipe["nranks"], len(recipe["comms"]), len(recipe["vals"]),
            len(recipe["outs"]),
            sum(1 for v in recipe["vals"] if v["stored"]),
            sum(int(np.prod(v["p"]["shape"]) if v["p"]["shape"] else 1)
                for v in recipe["vals"] if v["op"] in ("input", "dw")))

# }}}

# vim: foldmethod=marker
