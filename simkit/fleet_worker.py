"""Fleet worker: one interpreter of the simulated interpreter population.

Started as
  setarch -R env PYTHONHASHSEED=<h> ... python -X faulthandler fleet_worker.py <prelude_seed>
Talks length-prefixed pickles on fd 0/1.  Only bytes cross the boundary.
"""
import os
import random
import struct
import sys

# {{{ heap prelude: BEFORE the heavy imports, so that class objects (tag
# classes, reduction-operation types) and everything after land at different,
# but per-seed reproducible, addresses

_pre = random.Random(int(sys.argv[1]) if len(sys.argv) > 1 else 0)
_junk = [bytearray(_pre.randint(1, 5000)) for _ in range(_pre.randint(0, 5000))]
del _junk[::2]
_keep = _junk
_junk2 = [object() for _ in range(_pre.randint(0, 20000))]
del _junk2[::3]

# }}}

import pickle  # noqa: E402
import traceback  # noqa: E402
import warnings  # noqa: E402

warnings.simplefilter("ignore")

PROTO_OUT = os.fdopen(os.dup(1), "wb", buffering=0)
PROTO_IN = os.fdopen(os.dup(0), "rb", buffering=0)
os.dup2(2, 1)      # anything printed goes to stderr, never into the protocol
sys.stdout = sys.stderr

HERE = os.path.dirname(os.path.dirname(os.path.abspath(__file__)))
sys.path.insert(0, HERE)


def _read_exact(n):
    # One allocation of exactly n bytes whatever way the pipe happens to chunk
    # the message: concatenating chunks would allocate objects whose number and
    # sizes depend on timing, and with them every later object address.
    buf = bytearray(n)
    view = memoryview(buf)
    got = 0
    while got < n:
        k = PROTO_IN.readinto(view[got:])
        if not k:
            raise EOFError
        got += k
    return buf


def recv():
    (n,) = struct.unpack("<Q", _read_exact(8))
    return pickle.loads(_read_exact(n))


def send(obj):
    blob = pickle.dumps(obj, protocol=pickle.HIGHEST_PROTOCOL)
    PROTO_OUT.write(struct.pack("<Q", len(blob)) + blob)


def _neutralise_clocks():
    """pytools.ProcessLogger (used all over loopy) reads the wall clock and
    formats elapsed times into strings of varying length: enough to shift later
    allocations, i.e. to make object addresses depend on timing.  The simulated
    interpreters must not read a real clock: replace it by a silent dummy BEFORE
    loopy is imported."""
    import pytools

    class _SilentProcessLogger:
        def __init__(self, *args, **kwargs):
            pass

        def done(self, *args, **kwargs):
            pass

        def __enter__(self):
            pass

        def __exit__(self, *args):
            pass

    pytools.ProcessLogger = _SilentProcessLogger
    pytools.DebugProcessLogger = _SilentProcessLogger


def _shim_post_init():
    """python -O only.  pytato defines AbstractResultWithNamedArrays.
    __post_init__ under `if __debug__:`, but LoopyCall.__post_init__ calls
    super().__post_init__() unconditionally: under -O every call_loopy raises
    AttributeError.  Not one of the listed properties (nothing about equality,
    keys or code generation: the node cannot even be built), so it is noted in
    DESIGN.md rather than repaired; this no-op lets the -O interpreters build
    loopy calls at all."""
    from pytato.array import AbstractResultWithNamedArrays
    if not hasattr(AbstractResultWithNamedArrays, "__post_init__"):
        AbstractResultWithNamedArrays.__post_init__ = lambda self: None


def main():
    _neutralise_clocks()
    import pytato  # noqa: F401
    root = os.environ.get("VERIF_PYTATO_ROOT", "/repo")
    if not os.path.realpath(pytato.__file__).startswith(
            os.path.realpath(root) + os.sep):
        raise RuntimeError(f"wrong pytato: {pytato.__file__}")
    if not __debug__:
        _shim_post_init()
    from simkit import fleet_ops
    fleet_ops.PIPE = (send, recv)
    state = fleet_ops.State()
    # (no pid in here: a pid below 65536 pickles two bytes shorter than a
    # larger one, which is enough to shift later allocations -- found when an
    # address-dependent finding would not replay)
    send(("ready", {"hashseed": os.environ.get("PYTHONHASHSEED"),
                    "pytato": pytato.__file__}))
    while True:
        try:
            msg = recv()
        except EOFError:
            return
        if len(msg) == 3:
            import json
            cmd = msg[0]
            kwargs = json.loads(msg[1])
            kwargs.update(dict(msg[2]))
        else:
            cmd, kwargs = msg
        if cmd == "quit":
            send(("ok", None))
            return
        try:
            res = getattr(fleet_ops, "op_" + cmd)(state, **kwargs)
            send(("ok", res))
        except BaseException:  # noqa: BLE001
            send(("exc", traceback.format_exc()))


if __name__ == "__main__":
    main()
