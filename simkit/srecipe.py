"""Single-rank recipes: JSON "program texts" over value numbers, interpreted
into public-API pytato calls.  Covers every node kind C04 / C17 / C18 name:
placeholders, data wrappers, size parameters, arithmetic / comparison / logical
operations with broadcasting and scalars, where / maximum / minimum, math
functions, astype, reductions, einsum / matmul, stack / concatenate / roll /
transpose / reshape (C, F) / expand_dims / squeeze / broadcast_to, basic and
advanced indexing, CSR matmul, full / zeros / eye / arange, traced function
calls, a hand-written loopy kernel call, tags / axis tags / reduction tags,
distributed receive / send holders, named outputs.

The generator validates every step by performing it with pytato itself
(shape/dtype inference is pytato's, deterministic for a given tree); a step
that raises is re-drawn.  The recipe, once generated, is plain data.
"""
from __future__ import annotations

import random

import numpy as np

from . import htags

SHAPES = [(), (1,), (2,), (3,), (4,), (0,), (2, 3), (3, 2), (3, 3), (1, 3),
          (4, 1), (2, 2), (0, 3), (2, 1, 2), (2, 3, 2)]
SHAPE_W = [2, 1, 3, 6, 3, 1, 5, 3, 3, 1, 1, 2, 1, 1, 1]
# bulk data: 0.5 KiB ... 1 MiB (with 8-byte items)
BULK_SHAPES = [(64,), (512,), (1024,), (4096,), (8192,), (8193,), (16384,),
               (128, 128), (130, 130), (32768,), (256, 256), (131072,),
               (64, 64, 8)]
DTYPES = ["float64", "float64", "float32", "int64", "int32", "complex128", "bool"]

UNARY = ["neg", "abs", "sqrt", "sin", "cos", "exp", "tanh", "isnan",
         "logical_not", "real", "imag", "conj", "log"]
BINARY = ["add", "sub", "mul", "truediv", "pow", "maximum", "minimum", "equal",
          "not_equal", "less", "less_equal", "greater", "greater_equal",
          "logical_and", "logical_or", "arctan2", "floordiv"]
REDUCTIONS = ["sum", "prod", "amax", "amin", "all", "any"]


# {{{ functions available to trace_call (module level: same in every process)

def _fn_axpy(x, y):
    return 2 * x + y


def _fn_sincos(x):
    import pytato as pt
    return {"s": pt.sin(x), "c": pt.cos(x) + x}


def _fn_pair(x, y):
    return x * y, x - y


def _fn_nested(x, y):
    import pytato as pt
    return pt.trace_call(_fn_axpy, x, y) * 3


FUNCTIONS = {"axpy": (_fn_axpy, 2), "sincos": (_fn_sincos, 1),
             "pair": (_fn_pair, 2), "nested": (_fn_nested, 2)}

_KERNELS: dict = {}


def loopy_kernel(which, n):
    """hand-written loopy kernels with fixed shapes (built once per process;
    fixed shapes because call_loopy's shape inference does not work with the
    islpy of this sandbox: test_call_loopy_shape_inference is a baseline
    failure)"""
    import loopy as lp
    key = (which, n)
    if key not in _KERNELS:
        if which == "twice":
            k = lp.make_kernel(
                f"{{[i]: 0<=i<{n}}}", "out[i] = 2*a[i]",
                [lp.GlobalArg("a", dtype=np.float64, shape=(n,)),
                 lp.GlobalArg("out", dtype=np.float64, shape=(n,),
                              is_input=False)],
                name="twice", lang_version=(2018, 2))
        elif which == "axpb":
            k = lp.make_kernel(
                f"{{[i]: 0<=i<{n}}}", "z[i] = x[i]*y[i] + 1",
                [lp.GlobalArg("x", dtype=np.float64, shape=(n,)),
                 lp.GlobalArg("y", dtype=np.float64, shape=(n,)),
                 lp.GlobalArg("z", dtype=np.float64, shape=(n,),
                              is_input=False)],
                name="axpb", lang_version=(2018, 2))
        elif which == "twoout":
            k = lp.make_kernel(
                f"{{[i]: 0<=i<{n}}}", ["o1[i] = 2*a[i]", "o2[i] = a[i] + 1"],
                [lp.GlobalArg("a", dtype=np.float64, shape=(n,)),
                 lp.GlobalArg("o1", dtype=np.float64, shape=(n,),
                              is_input=False),
                 lp.GlobalArg("o2", dtype=np.float64, shape=(n,),
                              is_input=False)],
                name="twoout", lang_version=(2018, 2))
        elif which == "duo":
            # one translation unit, two entrypoints with the same signature
            ka = lp.make_kernel(
                f"{{[i]: 0<=i<{n}}}", "out[i] = 2*a[i]",
                [lp.GlobalArg("a", dtype=np.float64, shape=(n,)),
                 lp.GlobalArg("out", dtype=np.float64, shape=(n,),
                              is_input=False)],
                name="duo_a", lang_version=(2018, 2))
            kb = lp.make_kernel(
                f"{{[j]: 0<=j<{n}}}", "out[j] = 3*a[j]",
                [lp.GlobalArg("a", dtype=np.float64, shape=(n,)),
                 lp.GlobalArg("out", dtype=np.float64, shape=(n,),
                              is_input=False)],
                name="duo_b", lang_version=(2018, 2))
            k = lp.merge([ka, kb])
        elif which in ("nest2", "nest3"):
            # an entry kernel calling a callee kernel that lives next to it in
            # the translation unit (the entry kernel holds only its NAME)
            callee = lp.make_function(
                f"{{[j]: 0<=j<{n}}}", f"y[j] = {which[-1]}*x[j]",
                [lp.GlobalArg("x", shape=(n,), dtype=np.float64),
                 lp.GlobalArg("y", shape=(n,), dtype=np.float64,
                              is_output=True)],
                name="scale", lang_version=(2018, 2))
            caller = lp.make_kernel(
                f"{{[i]: 0<=i<{n}}}", "[i]: out[i] = scale([i]: a[i])",
                [lp.GlobalArg("a", shape=(n,), dtype=np.float64),
                 lp.GlobalArg("out", shape=(n,), dtype=np.float64,
                              is_output=True)],
                name="apply_nest", lang_version=(2018, 2))
            k = lp.merge([caller, callee])
        else:
            raise ValueError(which)
        # loopy's default for this option is sys.flags.optimize: pin it, so
        # that "the same kernel" is the same in a python -O interpreter
        k = lp.set_options(k, skip_arg_checks=False)
        _KERNELS[key] = k
    return _KERNELS[key]

# }}}


def _idx_from(p):
    out = []
    for it in p:
        if it[0] == "s":
            out.append(slice(it[1], it[2], it[3]))
        elif it[0] == "i":
            out.append(int(it[1]))
        elif it[0] == "e":
            out.append(Ellipsis)
        elif it[0] == "n":
            out.append(None)
        else:
            raise ValueError(it)
    return tuple(out)


def layout_array(a, layout):
    """the same logical array in another memory layout"""
    if layout == "F":
        return np.asfortranarray(a)
    if layout == "T":
        # a transposed view of a C-ordered array
        return np.ascontiguousarray(a.T).T
    if layout == "strided":
        if a.ndim == 0:
            return a
        big = np.zeros((*a.shape[:-1], 2 * a.shape[-1] + 1), dtype=a.dtype)
        view = big[..., 1::2][..., :a.shape[-1]]
        view[...] = a
        return view
    return np.ascontiguousarray(a)


def _salted(arr, salt):
    """the same array with one element changed (which one, and how, follows
    *salt*): 'the next time step's data'"""
    if not salt or arr.size == 0:
        return arr
    arr = arr.copy()
    flat = arr.reshape(-1)
    i = salt % flat.size
    if arr.dtype.kind == "b":
        flat[i] = not flat[i]
    else:
        flat[i] = flat[i] + 1 + (salt // flat.size) % 5
    return arr


def bulk_data(p, salt=0):
    """wrapped data too large to spell out in the recipe: generated from a seed
    (numpy's PCG64 stream is specified, the same in every process)"""
    g = np.random.Generator(np.random.PCG64(p["seed"]))
    shape = tuple(p["shape"])
    dt = np.dtype(p["dtype"])
    if dt.kind == "b":
        a = g.integers(0, 2, size=shape).astype(dt)
    elif dt.kind in "iu":
        a = g.integers(-1000, 1000, size=shape).astype(dt)
    else:
        a = (g.integers(-4096, 4096, size=shape) / 8).astype(dt)
    return _salted(a, salt)


def apply_step(step, vals, shared=None, salt=0, variant=0):
    """perform one recipe step with pytato; returns the new value.  *salt*
    != 0 perturbs all wrapped data (one element each); *variant* != 0 adds it
    to the constant of every scalar step (another graph of the SAME shape:
    same node kinds, same number of objects, same allocation pattern)."""
    import pytato as pt
    op, a, p = step["op"], [vals[i] for i in step["args"]], step.get("p", {})
    if op == "ph":
        return pt.make_placeholder(p["name"], tuple(p["shape"]), np.dtype(p["dtype"]))
    if op == "dwscalar":
        # a numpy scalar (not a 0-d array) as wrapped data
        if shared is not None and step["id"] in shared:
            return shared[step["id"]]
        res = pt.make_data_wrapper(getattr(np, p["dtype"])(p["value"] + salt % 7))
        if shared is not None:
            shared[step["id"]] = res
        return res
    if op in ("dw", "dwgen"):
        if shared is not None and step["id"] in shared:
            return shared[step["id"]]
        if op == "dw":
            arr = _salted(np.array(p["data"], dtype=p["dtype"]).reshape(
                tuple(p["shape"])), salt)
        else:
            arr = bulk_data(p, salt)
        res = pt.make_data_wrapper(layout_array(arr, p.get("layout", "C")))
        if shared is not None:
            shared[step["id"]] = res
        return res
    if op == "sizeph":
        n = pt.make_size_param(p["size_name"])
        shape = tuple(n if s == "n" else (n + 1 if s == "n+1" else int(s))
                      for s in p["shape"])
        return pt.make_placeholder(p["name"], shape, np.dtype(p["dtype"]))
    if op == "zeros":
        return pt.zeros(tuple(p["shape"]), np.dtype(p["dtype"]))
    if op == "ones":
        return pt.ones(tuple(p["shape"]), np.dtype(p["dtype"]))
    if op == "full":
        return pt.full(tuple(p["shape"]), p["value"], np.dtype(p["dtype"]))
    if op == "eye":
        return pt.eye(p["n"], p["m"], p["k"], np.dtype(p["dtype"]))
    if op == "arange":
        return pt.arange(p["start"], p["stop"], p["step"], dtype=np.dtype(p["dtype"]))
    if op in UNARY:
        if op == "neg":
            return -a[0]
        return getattr(pt, op)(a[0])
    if op in BINARY:
        if op == "add":
            return a[0] + a[1]
        if op == "sub":
            return a[0] - a[1]
        if op == "mul":
            return a[0] * a[1]
        if op == "truediv":
            return a[0] / a[1]
        if op == "floordiv":
            return a[0] // a[1]
        if op == "pow":
            return abs(a[0]) ** a[1]
        return getattr(pt, op)(a[0], a[1])
    if op == "scalar":
        c = complex(*p["c"]) if isinstance(p["c"], list) else p["c"]
        if c == "nan":
            c = float("nan")
        if variant:
            c = c + variant
        if p.get("ctype"):
            # a numpy-typed scalar (kept as such inside the expression)
            c = getattr(np, p["ctype"])(c)
        k = p["kind"]
        if k == "add":
            return a[0] + c
        if k == "radd":
            return c + a[0]
        if k == "mul":
            return a[0] * c
        if k == "rsub":
            return c - a[0]
        if k == "rdiv":
            return c / a[0]
        if k == "div":
            return a[0] / c
        if k == "pow":
            return a[0] ** c
        if k == "cmp":
            return pt.less(a[0], c)
        raise ValueError(k)
    if op == "where":
        return pt.where(a[0], a[1], a[2])
    if op == "astype":
        return a[0].astype(np.dtype(p["dtype"]))
    if op in REDUCTIONS:
        ax = p["axis"]
        ax = tuple(ax) if isinstance(ax, list) else ax
        res = getattr(pt, op)(a[0], axis=ax)
        if p.get("redn_tag") is not None and res.ndim < a[0].ndim + 1:
            from pytato.array import IndexLambda
            if isinstance(res, IndexLambda) and res.var_to_reduction_descr:
                v = sorted(res.var_to_reduction_descr)[0]
                res = res.with_tagged_reduction(v, htags.make_tag(p["redn_tag"]))
        return res
    if op == "einsum":
        res = pt.einsum(p["spec"], *a)
        if p.get("redn_tag") is not None:
            from pytato.array import EinsumReductionAxis
            axes = sorted(res.redn_axis_to_redn_descr, key=lambda d: d.dim)
            if axes:
                res = res.with_tagged_reduction(
                    axes[0], htags.make_tag(p["redn_tag"]))
        return res
    if op == "matmul":
        return a[0] @ a[1]
    if op == "dot":
        return pt.dot(a[0], a[1])
    if op == "stack":
        return pt.stack(a, axis=p["axis"])
    if op == "concatenate":
        return pt.concatenate(a, axis=p["axis"])
    if op == "roll":
        return pt.roll(a[0], p["shift"], p["axis"])
    if op == "transpose":
        return pt.transpose(a[0], tuple(p["perm"]))
    if op == "reshape":
        return pt.reshape(a[0], tuple(p["shape"]), order=p["order"])
    if op == "expand_dims":
        return pt.expand_dims(a[0], p["axis"])
    if op == "squeeze":
        return pt.squeeze(a[0])
    if op == "broadcast_to":
        return pt.broadcast_to(a[0], tuple(p["shape"]))
    if op == "index":
        return a[0][_idx_from(p["idx"])]
    if op == "advidx":
        # indices: list of ["a", argpos] (array index), ["s",..], ["i", k]
        idx = []
        for it in p["idx"]:
            if it[0] == "a":
                idx.append(a[it[1]])
            else:
                idx.extend(_idx_from([it]))
        return a[0][tuple(idx)]
    if op == "csrmatmul":
        mat = pt.make_csr_matrix((p["nrows"], p["ncols"]), a[0], a[1], a[2])
        return mat @ a[3]
    if op == "call":
        fn, _nargs = FUNCTIONS[p["fn"]]
        res = pt.trace_call(fn, *a)
        if isinstance(res, dict):
            return res[p["pick"]]
        if isinstance(res, tuple):
            return res[p["pick"]]
        return res
    if op == "loopy":
        knl = loopy_kernel(p["knl"], int(a[0].shape[0]))
        from pytato.loopy import call_loopy
        if p["knl"] == "twice":
            bindings = {"a": a[0]}
            out = "out"
        elif p["knl"] == "twoout":
            return call_loopy(knl, {"a": a[0]}, "twoout")[p["out"]]
        elif p["knl"] == "duo":
            return call_loopy(knl, {"a": a[0]}, p["entry"])["out"]
        elif p["knl"] in ("nest2", "nest3"):
            return call_loopy(knl, {"a": a[0]}, "apply_nest")["out"]
        else:
            bindings = {"x": a[0], "y": a[1]}
            if p.get("rev"):
                bindings = dict(reversed(list(bindings.items())))
            out = "z"
        return call_loopy(knl, bindings, p["knl"])[out]
    if op == "named":
        if p.get("sibling"):
            # a second entry of the same shape and dtype next to it
            return pt.make_dict_of_named_arrays(
                {p["name"]: a[0], p["name"] + "_s": -a[0]})[p["name"]]
        return pt.make_dict_of_named_arrays({p["name"]: a[0]})[p["name"]]
    if op == "tagged":
        res = a[0].tagged(htags.make_tag(p["tag"]))
        for t in p.get("more", ()):
            res = res.tagged(htags.make_tag(t))
        return res
    if op == "axis_tagged":
        res = a[0].with_tagged_axis(p["axis"], htags.make_tag(p["tag"]))
        for t in p.get("more", ()):
            res = res.with_tagged_axis(p["axis"], htags.make_tag(t))
        return res
    if op == "untagged":
        return a[0].without_tags(htags.make_tag(p["tag"]), verify_existence=False)
    if op == "recv":
        return pt.make_distributed_recv(p["src"], htags.make_comm_tag(p["tag"]),
                                        tuple(p["shape"]), np.dtype(p["dtype"]))
    if op == "send":
        return pt.staple_distributed_send(
            a[0], p["dest"], htags.make_comm_tag(p["tag"]), stapled_to=a[1])
    raise ValueError(op)


def build(recipe, shared=None, salt=0, variant=0):
    """-> (values, outputs).  outputs: DictOfNamedArrays (or a single Array if
    recipe['single']).  *shared*: dict step id -> DataWrapper to reuse.
    *salt*: see apply_step."""
    import pytato as pt
    vals: list = []
    for i, step in enumerate(recipe["steps"]):
        step = dict(step, id=i)
        vals.append(apply_step(step, vals, shared, salt, variant))
    if recipe.get("single"):
        return vals, vals[recipe["outs"][0][1]]
    outs = {name: vals[i] for name, i in recipe["outs"]}
    if recipe.get("dict_tag") is not None:
        d = pt.make_dict_of_named_arrays(
            outs, tags=frozenset({htags.make_tag(recipe["dict_tag"])}))
    else:
        d = pt.make_dict_of_named_arrays(outs)
    return vals, d


# {{{ generator

class _G:
    def __init__(self, rng, profile):
        self.rng = rng
        self.profile = profile          # "codegen" | "any"
        self.steps: list = []
        self.vals: list = []
        self.nph = 0
        self.nsz = 0
        self.ntag = 0
        # "bulk" recipes wrap data on both sides of the sizes at which
        # allocators and caches change strategy (kilobytes to a megabyte);
        # everything else stays tiny
        self.focus = None
        self.prefer_symbolic = False
        self.bulk = profile == "any" and rng.random() < 0.15
        self.max_size = (1 << 17) if self.bulk else 96

    def arr_ids(self, pred=None):
        import pytato as pt
        return [i for i, v in enumerate(self.vals)
                if isinstance(v, pt.Array) and (pred is None or pred(v))]

    def pick(self, pred=None):
        ids = self.arr_ids(pred)
        if not ids:
            return None
        rng = self.rng
        if rng.random() < 0.5:
            return ids[-1 - min(int(rng.expovariate(0.6)), len(ids) - 1)]
        return rng.choice(ids)

    def try_step(self, step):
        try:
            import warnings
            with warnings.catch_warnings():
                warnings.simplefilter("ignore")
                v = apply_step(dict(step, id=len(self.steps)), self.vals)
        except Exception:  # noqa: BLE001
            return None
        import pytato as pt
        if not isinstance(v, pt.Array):
            return None
        try:
            if any(not isinstance(s, (int, np.integer)) for s in v.shape):
                if self.profile == "codegen" and step["op"] not in (
                        "sizeph", "add", "mul", "sum", "scalar", "neg", "sin"):
                    return None
            elif v.size > self.max_size or v.ndim > 3:
                return None
            v.dtype, v.axes, v.tags, hash(v)
        except Exception:  # noqa: BLE001
            return None
        self.steps.append(step)
        self.vals.append(v)
        return len(self.vals) - 1

    def leaf(self):
        rng = self.rng
        k = rng.random()
        shape = list(rng.choices(SHAPES, SHAPE_W)[0])
        dtype = rng.choice(DTYPES)
        if self.bulk and rng.random() < 0.5:
            if dtype == "complex128":
                dtype = "float64"
            return self.try_step({"op": "dwgen", "args": [],
                                  "p": {"seed": rng.randrange(2 ** 31),
                                        "dtype": dtype,
                                        "shape": list(rng.choice(BULK_SHAPES)),
                                        "layout": rng.choice(
                                            ["C", "C", "C", "F", "strided"])}})
        if self.profile == "any" and rng.random() < 0.04:
            return self.try_step({"op": "dwscalar", "args": [],
                                  "p": {"dtype": rng.choice(
                                      ["float32", "float64", "int32", "int64"]),
                                      "value": rng.randint(-3, 3)}})
        if k < 0.5:
            self.nph += 1
            return self.try_step({"op": "ph", "args": [],
                                  "p": {"name": f"p{self.nph}", "shape": shape,
                                        "dtype": dtype}})
        if k < 0.72:
            n = int(np.prod(shape)) if shape else 1
            if dtype == "bool":
                data = [bool(rng.getrandbits(1)) for _ in range(n)]
            elif dtype == "complex128":
                dtype = "float64"
                data = [float(rng.randint(-4, 4)) for _ in range(n)]
            elif dtype.startswith("int"):
                data = [rng.randint(-4, 4) for _ in range(n)]
            else:
                data = [rng.randint(-8, 8) / 2 for _ in range(n)]
            return self.try_step({"op": "dw", "args": [],
                                  "p": {"data": data, "dtype": dtype,
                                        "shape": shape,
                                        "layout": rng.choice(
                                            ["C", "C", "F", "T", "strided"])}})
        if k < 0.8:
            self.nph += 1
            self.nsz += 1
            shp = rng.choice([["n"], ["n", 3], [2, "n"], ["n+1"]])
            return self.try_step({"op": "sizeph", "args": [],
                                  "p": {"name": f"p{self.nph}",
                                        "size_name": f"n{self.nsz}",
                                        "shape": shp, "dtype": "float64"}})
        which = rng.choice(["zeros", "ones", "full", "eye", "arange"])
        if dtype in ("bool", "complex128"):
            dtype = "float64"
        if which in ("zeros", "ones"):
            return self.try_step({"op": which, "args": [],
                                  "p": {"shape": shape, "dtype": dtype}})
        if which == "full":
            return self.try_step({"op": "full", "args": [],
                                  "p": {"shape": shape, "dtype": dtype,
                                        "value": rng.randint(-3, 3)}})
        if which == "eye":
            return self.try_step({"op": "eye", "args": [],
                                  "p": {"n": rng.randint(1, 4),
                                        "m": rng.choice([None, 2, 3]),
                                        "k": rng.randint(-1, 1), "dtype": dtype}})
        return self.try_step({"op": "arange", "args": [],
                              "p": {"start": rng.randint(0, 2),
                                    "stop": rng.randint(3, 7),
                                    "step": rng.choice([1, 2]),
                                    "dtype": rng.choice(["int64", "float64"])}})

    def new_tag(self):
        self.ntag += 1
        return htags.draw_tag(self.rng)

    def op(self):
        rng = self.rng
        kinds = ["unary", "binary", "binary", "scalar", "where", "astype",
                 "reduce", "einsum", "matmul", "stack", "concatenate", "roll",
                 "transpose", "reshape", "expand_dims", "squeeze",
                 "broadcast_to", "index", "index", "advidx", "csr", "call",
                 "loopy", "tagged", "axis_tagged", "untagged", "named"]
        if self.profile == "any":
            kinds += ["recv", "send", "send"]
        if self.focus:
            # a "focused" recipe: one of the rarer node families dominates
            kinds += [self.focus] * 14
        k = rng.choice(kinds)
        a = self.pick()
        if a is not None and self.prefer_symbolic and rng.random() < 0.7:
            a2 = self.pick(lambda v: any(
                not isinstance(sh, (int, np.integer)) for sh in v.shape))
            if a2 is not None:
                a = a2
        if a is None:
            return self.leaf()
        va = self.vals[a]
        nd = va.ndim
        if k == "unary":
            return self.try_step({"op": rng.choice(UNARY), "args": [a]})
        if k == "binary":
            b = self.pick()
            if rng.random() < 0.4:
                # same dtype on both sides (float32 with float32, complex
                # with complex, ...): the common dtype, and with it the type
                # of the literals pytato inserts (NaN in maximum / minimum),
                # is then not float64 for once
                b2 = self.pick(lambda v: v.dtype == va.dtype)
                if b2 is not None:
                    b = b2
            return self.try_step({"op": rng.choice(BINARY), "args": [a, b]})
        if k == "scalar":
            c = rng.choice([2, -1, 0.5, 3, 1.5, [1.0, 2.0]])
            pp = {"c": c, "kind": rng.choice(
                ["add", "radd", "mul", "rsub", "rdiv", "div", "pow", "cmp"])}
            if rng.random() < 0.06:
                # a NaN literal, of any inexact type
                pp["c"] = "nan"
                pp["ctype"] = rng.choice([None, None, "float32", "float64",
                                          "float16", "complex64", "complex128"])
                if pp["ctype"] is None:
                    del pp["ctype"]
                pp["kind"] = rng.choice(["add", "radd", "mul", "rsub"])
                return self.try_step({"op": "scalar", "args": [a], "p": pp})
            if rng.random() < 0.35:
                if isinstance(c, list):
                    pp["ctype"] = rng.choice(["complex64", "complex128"])
                elif isinstance(c, int):
                    pp["ctype"] = rng.choice(["int32", "int64", "int8", "uint32",
                                              "float32", "float64"])
                    if pp["ctype"] == "uint32" and c < 0:
                        pp["ctype"] = "int32"
                else:
                    pp["ctype"] = rng.choice(["float32", "float64"])
            return self.try_step({"op": "scalar", "args": [a], "p": pp})
        if k == "where":
            c = self.pick(lambda v: v.dtype == np.bool_)
            if c is None:
                c0 = self.try_step({"op": "scalar", "args": [a],
                                    "p": {"c": 0, "kind": "cmp"}})
                if c0 is None:
                    return None
                c = c0
            b = self.pick()
            return self.try_step({"op": "where", "args": [c, a, b]})
        if k == "astype":
            return self.try_step({"op": "astype", "args": [a],
                                  "p": {"dtype": rng.choice(DTYPES[:-1])}})
        if k == "reduce":
            if nd == 0 or rng.random() < 0.35:
                ax = None
            elif nd >= 2 and rng.random() < 0.3:
                ax = sorted(rng.sample(range(nd), 2))
            else:
                ax = rng.randrange(nd)
            return self.try_step({"op": rng.choice(REDUCTIONS), "args": [a],
                                  "p": {"axis": ax,
                                        "redn_tag": self.new_tag()
                                        if rng.random() < 0.3 else None}})
        if k == "einsum":
            b = self.pick()
            vb = self.vals[b]
            specs = ["ij,j->i", "i,i->", "i,i->i", "ij,jk->ik", "ij,ij->j",
                     "i,j->ij", "ij->ji", "ii->i", "ij->", "ijk,kj->i"]
            spec = rng.choice(specs)
            nargs = spec.split("->")[0].count(",") + 1
            return self.try_step({"op": "einsum", "args": [a, b][:nargs],
                                  "p": {"spec": spec,
                                        "redn_tag": self.new_tag()
                                        if rng.random() < 0.3 else None}})
        if k == "matmul":
            b = self.pick()
            return self.try_step({"op": rng.choice(["matmul", "dot"]),
                                  "args": [a, b]})
        if k in ("stack", "concatenate"):
            b = self.pick(lambda v: v.ndim == nd)
            if b is None:
                return None
            q = rng.random()
            if q < 0.75:
                args = [a, b]
            elif q < 0.92:
                args = [a, b, a]
            else:
                # very many operands (binding names beyond _in9 sort
                # differently as strings than as numbers)
                args = [a, b] * 6
            return self.try_step({"op": k, "args": args,
                                  "p": {"axis": rng.randrange(nd + 1)}})
        if k == "roll":
            if nd == 0:
                return None
            return self.try_step({"op": "roll", "args": [a],
                                  "p": {"shift": rng.randint(-3, 3),
                                        "axis": rng.randrange(nd)}})
        if k == "transpose":
            perm = list(range(nd))
            rng.shuffle(perm)
            return self.try_step({"op": "transpose", "args": [a],
                                  "p": {"perm": perm}})
        if k == "reshape":
            try:
                n = int(va.size)
            except Exception:  # noqa: BLE001
                return None
            cands = [[n], [-1]]
            for d in (1, 2, 3, 4):
                if n and n % d == 0:
                    cands += [[d, n // d], [n // d, d], [d, -1]]
            return self.try_step({"op": "reshape", "args": [a],
                                  "p": {"shape": rng.choice(cands),
                                        "order": rng.choice(["C", "C", "F"])}})
        if k == "expand_dims":
            return self.try_step({"op": "expand_dims", "args": [a],
                                  "p": {"axis": rng.randrange(nd + 1)}})
        if k == "squeeze":
            return self.try_step({"op": "squeeze", "args": [a]})
        if k == "broadcast_to":
            try:
                shp = [int(s) for s in va.shape]
            except Exception:  # noqa: BLE001
                return None
            new = [rng.randint(1, 3), *[s if s != 1 else rng.randint(1, 3)
                                        for s in shp]]
            return self.try_step({"op": "broadcast_to", "args": [a],
                                  "p": {"shape": new}})
        if k == "index":
            if nd == 0:
                return None
            idx = []
            for ax in range(nd):
                try:
                    n = int(va.shape[ax])
                except Exception:  # noqa: BLE001
                    n = 3
                    if rng.random() < 0.7:
                        # a symbolic axis: open-ended slices, whose normalised
                        # bounds are array expressions over the size parameter
                        idx.append(["s", rng.choice([None, None, 0, 1]), None,
                                    rng.choice([1, 1, 2, -1, 3])])
                        continue
                q = rng.random()
                if q < 0.3 and n > 0:
                    idx.append(["i", rng.randrange(-n, n)])
                elif q < 0.75:
                    lo = rng.randint(0, max(n - 1, 0))
                    hi = rng.randint(lo, n)
                    idx.append(["s", lo, hi, rng.choice([1, 1, 2])])
                elif q < 0.85:
                    idx.append(["s", None, None, rng.choice([1, -1, 2])])
                elif q < 0.92:
                    idx.append(["n"])
                    idx.append(["s", None, None, 1])
                else:
                    idx.append(["e"])
                    break
            return self.try_step({"op": "index", "args": [a], "p": {"idx": idx}})
        if k == "advidx":
            if nd == 0:
                return None
            try:
                dims = [int(s) for s in va.shape]
            except Exception:  # noqa: BLE001
                return None
            if any(d == 0 for d in dims):
                return None
            # integer index arrays as data wrappers
            idx = []
            args = [a]
            nidx = 0
            pattern = rng.choice(["first", "contig", "noncontig"])
            for ax in range(nd):
                use = (pattern == "first" and ax == 0) or \
                      (pattern == "contig" and ax <= 1) or \
                      (pattern == "noncontig" and ax in (0, 2))
                if use:
                    cnt = rng.randint(1, 3) if nidx == 0 else None
                    length = cnt if cnt else self._advlen
                    self._advlen = length
                    data = [rng.randrange(dims[ax]) for _ in range(length)]
                    d = self.try_step({"op": "dw", "args": [],
                                       "p": {"data": data, "dtype": "int64",
                                             "shape": [length]}})
                    args.append(d)
                    idx.append(["a", len(args) - 1])
                    nidx += 1
                else:
                    idx.append(["s", None, None, 1])
            if nidx == 0:
                return None
            return self.try_step({"op": "advidx", "args": args, "p": {"idx": idx}})
        if k == "csr":
            nrows, ncols = rng.randint(1, 3), rng.randint(1, 3)
            nnz_per_row = [rng.randint(0, ncols) for _ in range(nrows)]
            row_starts = [0]
            cols = []
            for nz in nnz_per_row:
                cols += sorted(rng.sample(range(ncols), nz))
                row_starts.append(len(cols))
            vals_ = [rng.randint(-3, 3) / 1.0 for _ in cols]
            if not cols:
                return None
            e = self.try_step({"op": "dw", "args": [], "p": {
                "data": vals_, "dtype": "float64", "shape": [len(cols)]}})
            c = self.try_step({"op": "dw", "args": [], "p": {
                "data": cols, "dtype": "int64", "shape": [len(cols)]}})
            r = self.try_step({"op": "dw", "args": [], "p": {
                "data": row_starts, "dtype": "int64", "shape": [nrows + 1]}})
            self.nph += 1
            x = self.try_step({"op": "ph", "args": [], "p": {
                "name": f"p{self.nph}",
                "shape": rng.choice([[ncols], [ncols, 2]]), "dtype": "float64"}})
            return self.try_step({"op": "csrmatmul", "args": [e, c, r, x],
                                  "p": {"nrows": nrows, "ncols": ncols}})
        if k == "call":
            name = rng.choice(sorted(FUNCTIONS))
            _fn, nargs = FUNCTIONS[name]
            b = self.pick(lambda v: v.shape == va.shape)
            args = [a] if nargs == 1 else [a, b if b is not None else a]
            pick = {"sincos": rng.choice(["s", "c"]),
                    "pair": rng.randrange(2)}.get(name)
            return self.try_step({"op": "call", "args": args,
                                  "p": {"fn": name, "pick": pick}})
        if k == "loopy":
            cand = self.pick(lambda v: v.ndim == 1 and v.dtype == np.float64
                             and isinstance(v.shape[0], (int, np.integer))
                             and v.shape[0] > 0)
            if cand is None:
                return None
            kk = rng.random()
            if kk < 0.2:
                return self.try_step({"op": "loopy", "args": [cand],
                                      "p": {"knl": "twice"}})
            if kk < 0.35:
                return self.try_step({"op": "loopy", "args": [cand],
                                      "p": {"knl": "twoout",
                                            "out": rng.choice(["o1", "o2"])}})
            if kk < 0.5 and self.profile == "any":
                return self.try_step({"op": "loopy", "args": [cand],
                                      "p": {"knl": "duo", "entry": rng.choice(
                                          ["duo_a", "duo_b"])}})
            if kk < 0.78:
                return self.try_step({"op": "loopy", "args": [cand],
                                      "p": {"knl": rng.choice(
                                          ["nest2", "nest3"])}})
            other = self.pick(lambda v: v.ndim == 1 and v.dtype == np.float64
                              and v.shape == self.vals[cand].shape)
            return self.try_step({"op": "loopy", "args": [cand, other],
                                  "p": {"knl": "axpb",
                                        "rev": rng.random() < 0.5}})
        if k == "named":
            return self.try_step({"op": "named", "args": [a],
                                  "p": {"name": rng.choice(["x", "y", "res"]),
                                        "sibling": rng.random() < 0.5}})
        if k in ("tagged", "axis_tagged", "untagged") \
                and self.profile == "codegen":
            from pytato.array import InputArgumentBase
            # a second instance of an input under the same name is a user
            # error (NameClashError): only tag computed arrays
            a = self.pick(lambda v: not isinstance(v, InputArgumentBase))
            if a is None:
                return None
            va = self.vals[a]
            nd = va.ndim
        # (half of the time several tags at once: unordered collections with
        # two or more members are where iteration order can show)
        more = [self.new_tag() for _ in range(rng.randint(1, 3))] \
            if rng.random() < 0.5 else []
        if k == "tagged":
            return self.try_step({"op": "tagged", "args": [a],
                                  "p": {"tag": self.new_tag(), "more": more}})
        if k == "axis_tagged":
            if nd == 0:
                return None
            return self.try_step({"op": "axis_tagged", "args": [a],
                                  "p": {"axis": rng.randrange(nd),
                                        "tag": self.new_tag(), "more": more}})
        if k == "untagged":
            from pytato.array import InputArgumentBase
            src = self.pick(lambda v: len(getattr(v, "tags", ())) > 0
                            and not (self.profile == "codegen"
                                     and isinstance(v, InputArgumentBase)))
            if src is None:
                return None
            # only harness tags can be named by a recipe
            return self.try_step({"op": "untagged", "args": [src],
                                  "p": {"tag": ["stored"]}})
        if k == "recv":
            shape = list(rng.choices(SHAPES, SHAPE_W)[0])
            return self.try_step({"op": "recv", "args": [],
                                  "p": {"src": rng.randint(0, 3),
                                        "tag": htags.draw_comm_tag(rng),
                                        "shape": shape,
                                        "dtype": rng.choice(["float64", "int64"])}})
        if k == "send":
            b = self.pick()
            return self.try_step({"op": "send", "args": [a, b],
                                  "p": {"dest": rng.randint(0, 3),
                                        "tag": htags.draw_comm_tag(rng)}})
        return None

    _advlen = 1


def gen_recipe(rng: random.Random, profile="any", nsteps=None) -> dict:
    """profile "codegen": nothing generate_loopy cannot lower (no distributed
    nodes); "any": every node kind."""
    g = _G(rng, profile)
    if rng.random() < 0.3:
        g.focus = rng.choice(["loopy", "loopy", "call", "csr", "einsum",
                              "advidx", "named", "stack", "concatenate",
                              "symidx"]
                             + (["send", "recv"] if profile == "any" else []))
        if g.focus == "symidx":
            # indexing into arrays with symbolic shapes: slices whose bounds
            # are array expressions over size parameters
            g.focus = "index"
            g.prefer_symbolic = True
            g.nph += 1
            g.nsz += 1
            g.try_step({"op": "sizeph", "args": [], "p": {
                "name": f"p{g.nph}", "size_name": f"n{g.nsz}",
                "shape": rng.choice([["n"], ["n", 3], [2, "n"], ["n+1"]]),
                "dtype": "float64"}})
        if g.focus == "loopy":
            # loopy calls need a 1-d float64 operand
            g.nph += 1
            g.try_step({"op": "ph", "args": [], "p": {
                "name": f"p{g.nph}", "shape": [rng.choice([2, 3, 4])],
                "dtype": "float64"}})
    for _ in range(rng.randint(1, 3)):
        g.leaf()
    if not g.vals:
        g.try_step({"op": "ph", "args": [], "p": {"name": "p0", "shape": [3],
                                                   "dtype": "float64"}})
    n = nsteps if nsteps is not None else rng.randint(2, 14)
    tries = 0
    made = 0
    while made < n and tries < 6 * n:
        tries += 1
        if rng.random() < 0.12:
            r = g.leaf()
        else:
            r = g.op()
        if r is not None:
            made += 1
    ids = g.arr_ids()
    k = rng.randint(1, 3)
    picks = []
    for _ in range(k):
        if rng.random() < 0.7:
            picks.append(ids[-1 - min(int(rng.expovariate(0.9)), len(ids) - 1)])
        else:
            picks.append(rng.choice(ids))
    if g.bulk:
        # the bulk data must be live: one wrapped bulk array is an output
        bulk_ids = [i for i, st in enumerate(g.steps) if st["op"] == "dwgen"]
        if bulk_ids:
            picks.append(rng.choice(bulk_ids))
    outs = [[f"out{j}", i] for j, i in enumerate(picks)]
    rec = {"steps": g.steps, "outs": outs, "profile": profile}
    if profile == "any" and rng.random() < 0.15:
        rec["dict_tag"] = htags.draw_tag(rng)
    if rng.random() < 0.1:
        rec["single"] = True
    return rec

# }}}

# vim: foldmethod=marker
