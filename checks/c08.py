"""C08 -- partitioned distributed execution terminates and is faithful in all
schedules.  Engine E1 (SimMPI)."""
from __future__ import annotations

import time

from simkit import distrun, driver, e1, mrecipe

PROP = "C08"

TIERS = {
    # streams, runs per stream, real generate_loopy every k-th run
    "quick": {"streams": 64, "runs": 450, "codegen_every": 9, "budget_s": None,
              "shadow_every": 450, "enum_tasks": 16, "enum_budget": 800,
              "enum_cap": 1500},
    "thorough": {"streams": 4000, "runs": 300, "codegen_every": 3,
                 "budget_s": 20 * 60, "shadow_every": 50, "enum_tasks": 1500,
                 "enum_budget": 6000, "enum_cap": 20000},
}


def evaluate(case, res):
    return distrun.oracle_c08(case["recipe"], res, case.get("iterations", 1))


from checks.known import match_known  # noqa: E402


def run_enum_task(task):
    """bounded exhaustive stratum: ALL schedules of small recipes"""
    import random
    from simkit import enumsched
    seed, (_kind, k), budget, cap = task[:4]
    known = driver.load_known_findings(PROP)
    acc = e1.Accum()
    t0 = time.monotonic()
    done = 0
    i = 0
    while done < budget and i < 400:
        rng = random.Random(f"{seed}:{PROP}:enum:{k}:{i}")
        i += 1
        recipe = mrecipe.gen_recipe(rng, max_ranks=3,
                                    max_comm=rng.choice([1, 2, 2, 3]))
        _live, livec = mrecipe.live_sets(recipe)
        if recipe["nranks"] < 2 or not livec:
            continue
        out = enumsched.enumerate_case(recipe, evaluate, max_runs=cap)
        done += out["schedules"]
        acc.runs += out["schedules"]
        acc.extra["enum_schedules"] += out["schedules"]
        acc.extra["enum_recipes"] += 1
        key = f"enum[{recipe['nranks']} ranks,{len(livec)} msgs]"
        if out["exhaustive"]:
            acc.extra["enum_recipes_exhausted"] += 1
            acc.extra[key + ":exhausted"] += 1
            acc.extra[key + ":schedules"] += out["schedules"]
        else:
            acc.extra[key + ":capped"] += 1
        if out["bad"] is not None:
            b = out["bad"]
            rest, hits = match_known(b["case"], b["violations"], known)
            for h in hits:
                acc.known.append((h, f"enum{k}", i))
            if rest:
                acc.violations.append({
                    "stream": f"enum{k}", "run": i, "case": b["case"],
                    "decisions": b["decisions"],
                    "classes": e1.classes_of(rest), "details": rest[:8]})
                break
    acc.wall = time.monotonic() - t0
    return acc


def run_stream(task):
    if isinstance(task[1], tuple):
        return run_enum_task(task)
    seed, stream, nruns, codegen_every = task[:4]
    shadow_every = task[4] if len(task) > 4 else 0
    known = driver.load_known_findings(PROP)
    acc = e1.Accum()
    t0 = time.monotonic()
    for run in range(nruns):
        case, rng = e1.make_case(seed, PROP, stream, run,
                                 codegen_every=codegen_every)
        if shadow_every and run % shadow_every == shadow_every - 1:
            # (late in the stream: quick wins first when hunting a violation)
            case["real_codegen"] = True
            case["shadow_exec"] = True
        try:
            res, trace = e1.run_with(case, None, rng,
                                     cross_check=(run % 8 == 1))
        except distrun.HarnessDisagreement as e:
            acc.harness_errors.append(f"stream {stream} run {run}: {e}")
            continue
        acc.note_run(case, res)
        acc.sample(case, res, trace)
        v = evaluate(case, res)
        if v:
            rest, hits = match_known(case, v, known)
            for h in hits:
                acc.known.append((h, stream, run))
            if rest:
                acc.violations.append({
                    "stream": stream, "run": run, "case": case,
                    "decisions": trace, "classes": e1.classes_of(rest),
                    "details": rest[:8]})
                if len(acc.violations) >= 3:
                    break
    acc.wall = time.monotonic() - t0
    return acc


def replay(path):
    import json
    with open(path) as f:
        doc = json.load(f)
    case = e1.case_from_doc(doc)
    res, _trace = e1.run_with(case, doc["schedule"])
    v = evaluate(case, res)
    rest, _hits = match_known(case, v, driver.load_known_findings(PROP))
    return doc, e1.classes_of(rest), rest

# vim: foldmethod=marker


def make_tasks(seed, conf):
    tasks = [(seed, k, conf["runs"], conf["codegen_every"],
              conf.get("shadow_every", 0)) for k in range(conf["streams"])]
    for k in range(conf.get("enum_tasks", 0)):
        tasks.insert(min(len(tasks), 2 * k),
                     (seed, ("enum", k), conf["enum_budget"], conf["enum_cap"]))
    return tasks


def coverage_extra(total):
    ex = {k: int(v) for k, v in sorted(total.extra.items())
          if k.startswith("enum")}
    return {"bounded_exhaustive_stratum": dict(
        ex, note="depth-first enumeration of all schedules (deliveries, send "
                 "completions, Wait/Waitsome wake-ups, every non-empty Waitsome "
                 "subset; eager and rendezvous) of small recipes (<=3 ranks, "
                 "<=3 messages); 'exhausted' = the whole schedule tree of that "
                 "recipe was visited; evaluations above include these runs")}
