"""Partition-level faults ("the partitioner, or a later pass over its result,
got the schedule wrong"): a receive posted in another part of the same rank, or
an extra ordering edge between two parts.  Each keeps every message matched
one-to-one and every name defined; what it can break is only the existence of
a feasible execution order -- the thing verify_distributed_partition promises
to check.

A descriptor is {"rank": r, "kind": "move-recv" | "add-needed", "pick": k}:
*pick* indexes (modulo) the deterministic candidate list of that rank's
partition, so a descriptor stays meaningful when the recipe is shrunk."""
from __future__ import annotations

import dataclasses

KINDS = ("move-recv", "add-needed", "dup-send")


def _like(mapping, items):
    try:
        return type(mapping)(items)
    except Exception:  # noqa: BLE001
        return dict(items)


def candidates(partition, kind):
    pids = list(partition.parts)
    out = []
    if kind == "move-recv":
        for j in pids:
            for name in sorted(partition.parts[j].name_to_recv_node):
                for i in pids:
                    if i != j:
                        out.append((name, j, i))
    elif kind == "add-needed":
        for i in pids:
            for j in pids:
                if i != j and j not in partition.parts[i].needed_pids:
                    out.append((i, j))
    elif kind == "dup-send":
        # the same send a second time under the same name: two sends with one
        # (source, destination, tag) -- a mismatch, not an ordering problem
        for i in pids:
            for name in sorted(partition.parts[i].name_to_send_nodes):
                for k in range(len(partition.parts[i].name_to_send_nodes[name])):
                    out.append((i, name, k))
    else:
        raise ValueError(kind)
    return out


def apply(partition, tamper):
    """-> (new partition, description) or (None, None) if this rank's
    partition offers no candidate of that kind"""
    cands = candidates(partition, tamper["kind"])
    if not cands:
        return None, None
    c = cands[tamper["pick"] % len(cands)]
    parts = dict(partition.parts)
    if tamper["kind"] == "move-recv":
        name, j, i = c
        pj, pi = parts[j], parts[i]
        recv = pj.name_to_recv_node[name]
        parts[j] = dataclasses.replace(pj, name_to_recv_node=_like(
            pj.name_to_recv_node,
            [(k, v) for k, v in pj.name_to_recv_node.items() if k != name]))
        parts[i] = dataclasses.replace(pi, name_to_recv_node=_like(
            pi.name_to_recv_node,
            [*pi.name_to_recv_node.items(), (name, recv)]))
        desc = f"receive {name} moved from part {j} to part {i}"
    elif tamper["kind"] == "dup-send":
        i, name, k = c
        pi = parts[i]
        sends = list(pi.name_to_send_nodes[name])
        sends.append(sends[k])
        parts[i] = dataclasses.replace(pi, name_to_send_nodes=_like(
            pi.name_to_send_nodes,
            [(n, (sends if n == name else v))
             for n, v in pi.name_to_send_nodes.items()]))
        desc = f"send {k} of {name} in part {i} duplicated"
    else:
        i, j = c
        parts[i] = dataclasses.replace(
            parts[i], needed_pids=frozenset(parts[i].needed_pids) | {j})
        desc = f"part {i} additionally needs part {j}"
    new = dataclasses.replace(
        partition, parts=_like(partition.parts,
                               [(pid, parts[pid]) for pid in partition.parts]))
    return new, desc
