"""Communication model (oracle for C10): classifies a set of per-rank graphs as
well-formed or names the defect classes, from the built graphs alone, by
reflective walking -- independent of pytato's partitioner and verifier."""
from __future__ import annotations

import enum

import numpy as np

from .partcheck import tag_text
from .walker import _is_dc, field_items


def dataflow_nodes(root):
    """dataclass instances reachable from root following data flow only: the
    'send' field of a DistributedSendRefHolder is not followed (no data flows
    from a send to the holder's users)."""
    from collections.abc import Mapping, Set
    from pytato.distributed.nodes import DistributedSendRefHolder
    seen: dict = {}
    stack = [root]
    while stack:
        v = stack.pop()
        if v is None or isinstance(v, (bool, int, float, complex, str, bytes,
                                       np.generic, np.ndarray, np.dtype, type,
                                       enum.Enum)):
            continue
        if id(v) in seen:
            continue
        seen[id(v)] = v
        if _is_dc(v):
            yield v
            for name, val in field_items(v):
                if isinstance(v, DistributedSendRefHolder) and name == "send":
                    continue
                stack.append(val)
        elif isinstance(v, (tuple, list)):
            stack.extend(v)
        elif isinstance(v, Mapping):
            stack.extend(v.values())
        elif isinstance(v, (Set, frozenset, set)):
            stack.extend(v)


def all_holders(root):
    """every DistributedSendRefHolder reachable (through any field)"""
    from .walker import iter_nodes
    from pytato.distributed.nodes import DistributedSendRefHolder
    return [v for v in iter_nodes(root) if isinstance(v, DistributedSendRefHolder)]


def analyse(dags):
    """dags[r]: DictOfNamedArrays of rank r.  Returns dict with
    'defects': sorted list of (class, affected ranks tuple, detail) and
    'well_formed': bool."""
    from pytato.distributed.nodes import DistributedRecv
    n = len(dags)
    sends = []      # (src, dst, tagtext, send node)
    recvs = []      # (src, dst, tagtext, recv node)
    for r, dag in enumerate(dags):
        seen_send_ids = set()
        # live = reachable through any field (a holder keeps its send alive)
        for h in all_holders(dag):
            if id(h.send) in seen_send_ids:
                continue
            seen_send_ids.add(id(h.send))
            sends.append((r, h.send.dest_rank, tag_text(h.send.comm_tag), h.send))
        from .walker import iter_nodes
        for v in iter_nodes(dag):
            if isinstance(v, DistributedRecv):
                recvs.append((v.src_rank, r, tag_text(v.comm_tag), v))
    defects = []
    for (s, d, t, _node) in sends:
        if s == d:
            defects.append(("self-send", (s,), f"{s}->{d} {t}"))
    for (s, d, t, _node) in recvs:
        if s == d:
            defects.append(("self-recv", (d,), f"{s}->{d} {t}"))
    scount: dict = {}
    rcount: dict = {}
    for (s, d, t, _node) in sends:
        scount[(s, d, t)] = scount.get((s, d, t), 0) + 1
    for (s, d, t, _node) in recvs:
        rcount[(s, d, t)] = rcount.get((s, d, t), 0) + 1
    for cid in sorted(scount):
        if scount[cid] > 1:
            defects.append(("duplicate-send", (cid[0],), str(cid)))
    for cid in sorted(rcount):
        if rcount[cid] > 1:
            defects.append(("duplicate-recv", (cid[1],), str(cid)))
    for cid in sorted(scount):
        if cid not in rcount and cid[0] != cid[1]:
            if 0 <= cid[1] < n:
                defects.append(("send-without-recv", (cid[0], cid[1]), str(cid)))
            else:
                defects.append(("send-without-recv", (cid[0],), str(cid)))
    for cid in sorted(rcount):
        if cid not in scount and cid[0] != cid[1]:
            if 0 <= cid[0] < n:
                defects.append(("recv-without-send", (cid[0], cid[1]), str(cid)))
            else:
                defects.append(("recv-without-send", (cid[1],), str(cid)))
    # cycle among communication operations: send c depends on every receive
    # its payload (data-flow) reaches; a receive "depends" on its send.
    deps: dict = {}
    for (s, d, t, node) in sends:
        cid = (s, d, t)
        for v in dataflow_nodes(node.data):
            if isinstance(v, DistributedRecv):
                deps.setdefault(cid, set()).add((v.src_rank, s, tag_text(v.comm_tag)))
    state: dict = {}
    cyclic = False

    def visit(c):
        nonlocal cyclic
        state[c] = 1
        for nx in sorted(deps.get(c, ())):
            if state.get(nx) == 1:
                cyclic = True
            elif state.get(nx) is None:
                visit(nx)
        state[c] = 2
    for c in sorted(deps):
        if state.get(c) is None:
            visit(c)
    if cyclic:
        defects.append(("cycle", tuple(range(n)), "cyclic dependency among "
                        "communication operations"))
    return {"defects": sorted(defects), "well_formed": not defects,
            "nsends": len(sends), "nrecvs": len(recvs)}
