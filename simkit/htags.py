"""Tags used by recipes.  Module level, so every interpreter of the fleet sees
the same classes and pickles of them load everywhere."""
from __future__ import annotations

import dataclasses

from pytools.tag import Tag, UniqueTag


@dataclasses.dataclass(frozen=True)
class HTagA(Tag):
    pass


@dataclasses.dataclass(frozen=True)
class HTagB(Tag):
    value: int


@dataclasses.dataclass(frozen=True)
class HTagC(UniqueTag):
    text: str


@dataclasses.dataclass(frozen=True)
class HTagD(Tag):
    """several of these can sit on one object; their hashes (and with them the
    iteration order of the tag set) follow the interpreter's hash seed"""
    text: str


@dataclasses.dataclass(frozen=True)
class HTagSet(Tag):
    """a tag whose payload is itself a set (print order follows the hash seed)"""
    items: frozenset


_SINGLETONS: dict = {}


def make_tag(spec):
    """Tag instances are per-process singletons per spec, like the module-level
    metadata tags of real applications: the same instance ends up on many
    graphs, in generated loopy kernels, in pickles, and carries whatever
    per-object caches (hash, key digest) earlier uses left on it."""
    key = repr(spec)
    t = _SINGLETONS.get(key)
    if t is None:
        t = _SINGLETONS[key] = _make_tag(spec)
    return t


def _make_tag(spec):
    from pytato.tags import ImplStored, Named, PrefixNamed
    kind = spec[0]
    if kind == "stored":
        return ImplStored()
    if kind == "named":
        return Named(spec[1])
    if kind == "prefix":
        return PrefixNamed(spec[1])
    if kind == "a":
        return HTagA()
    if kind == "b":
        return HTagB(int(spec[1]))
    if kind == "c":
        return HTagC(str(spec[1]))
    if kind == "d":
        return HTagD(str(spec[1]))
    if kind == "set":
        return HTagSet(frozenset(spec[1]))
    raise ValueError(spec)


def draw_tag(rng, codegen_safe=True):
    k = rng.random()
    if k < 0.25:
        return ["stored"]
    if k < 0.45:
        return ["a"]
    if k < 0.6:
        return ["b", rng.randint(0, 3)]
    if k < 0.72:
        return ["d", rng.choice(["alpha", "beta", "gamma", "delta", "eps",
                                 "zeta", "eta", "theta"])]
    if k < 0.8:
        return ["c", rng.choice(["u", "v", "w"])]
    if k < 0.9:
        return ["set", sorted(rng.sample(["a", "bb", "ccc", "d", "ee"], 3))]
    return ["prefix", rng.choice(["tmp", "buf"])]


def make_comm_tag(spec):
    from .mrecipe import mk_tag
    return mk_tag(spec)


def draw_comm_tag(rng):
    from .mrecipe import TAG_KINDS
    # (not "obj": an arbitrary object is a legal communication tag, but the
    # persistent key builder rightly refuses to key types it does not know)
    kinds = [k for k in TAG_KINDS if k != "obj"]
    return [rng.choice(kinds), rng.randint(1, 6)]
