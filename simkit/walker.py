"""Reflective structure walker: canonical forms of pytato objects computed by
walking ``dataclasses.fields`` -- independent of EqualityComparer, the mapper
hierarchy, PytatoKeyBuilder and ``repr``.

Canonical text is *structural*: two objects get the same text iff they agree in
every dataclass field (recursively), regardless of object identity and of
sharing.  Sets and mappings are printed sorted by the canonical text of their
elements (their iteration order follows the hash seed and is Python's doing);
sequences keep their order.

``dw_mode``:
  "identity"  a DataWrapper is a token unique to the object (pytato: a data
              wrapper equals only itself)
  "content"   a DataWrapper is (dtype, shape, sha256 of bytes)
"""
from __future__ import annotations

import dataclasses
import enum
import hashlib
from collections.abc import Mapping, Set

import numpy as np

SKIP_FIELDS = frozenset({"non_equality_tags"})


def _is_dc(obj) -> bool:
    return dataclasses.is_dataclass(obj) and not isinstance(obj, type)


def field_items(obj):
    """(name, value) for every dataclass field except the non-equality tags"""
    for f in dataclasses.fields(obj):
        if f.name in SKIP_FIELDS:
            continue
        yield f.name, getattr(obj, f.name)


def _loopy_key(tu):
    from loopy.tools import LoopyKeyBuilder
    return LoopyKeyBuilder()(tu)


_DW_TOKENS: dict = {}


class Canon:
    def __init__(self, dw_mode: str = "identity", dw_tokens=None,
                 scalar_types: bool = False):
        self.dw_mode = dw_mode
        # scalar_types: distinguish 2.0 from numpy.float64(2.0) (they compare
        # and hash equal in Python, but a persistent key may tell them apart)
        self.scalar_types = scalar_types
        self.table: dict = {}       # content hash -> descriptor text
        self.by_id: dict = {}       # id(obj) -> (obj, ref)  (memo; keeps obj alive)
        # identity tokens must be the same for every Canon of this process
        self.dw_tokens = dw_tokens if dw_tokens is not None else _DW_TOKENS

    # returns a short reference string
    def ref(self, v) -> str:
        if v is None or isinstance(v, (bool, str)):
            return repr(v)
        st = f":{type(v).__name__}" if self.scalar_types else ""
        if not self.scalar_types:
            # numbers are identified the way Python (and with it pymbolic's
            # and pytato's ==) identifies them: by value, 0 == 0.0 == 0j
            if isinstance(v, (complex, np.complexfloating)) \
                    and complex(v).imag == 0:
                v = complex(v).real
            if isinstance(v, (float, np.floating)) and float(v).is_integer():
                v = int(v)
        if isinstance(v, (int, np.integer)):
            # (no type suffix, not even in typed mode: integers of every type
            # are identified by value by ==, by hash() and by the key builder)
            return f"int:{int(v)}"
        if isinstance(v, (float, np.floating)):
            return f"float:{float(v)!r}{st}"
        if isinstance(v, (complex, np.complexfloating)):
            return f"complex:{complex(v)!r}{st}"
        if isinstance(v, np.bool_):
            return f"npbool:{bool(v)}"
        if isinstance(v, np.dtype):
            return f"dtype:{v.str}:{v.name}"
        if isinstance(v, enum.Enum):
            return f"enum:{type(v).__name__}.{v.name}"
        if isinstance(v, type):
            return f"type:{v.__module__}.{v.__qualname__}"
        if isinstance(v, bytes):
            return f"bytes:{v.hex()}"
        if isinstance(v, np.ndarray):
            return self._ndarray(v)
        memo = self.by_id.get(id(v))
        if memo is not None:
            return memo[1]
        r = self._ref_compound(v)
        self.by_id[id(v)] = (v, r)
        return r

    def _ndarray(self, a):
        a = np.asarray(a)
        h = hashlib.sha256(np.ascontiguousarray(a).tobytes()).hexdigest()[:16]
        return f"nd:{a.dtype.str}:{a.shape}:{h}"

    def _intern(self, text: str) -> str:
        # content-addressed (Merkle style): a reference does not depend on the
        # order in which the walk happened to reach the node, e.g. on the
        # iteration order of a mapping
        h = hashlib.sha256(text.encode()).hexdigest()[:16]
        if h not in self.table:
            self.table[h] = text
        return f"#{h}"

    def _ref_compound(self, v) -> str:
        from pytato.array import DataWrapper
        if isinstance(v, DataWrapper):
            if self.dw_mode == "identity":
                tok = self.dw_tokens.get(id(v))
                if tok is None:
                    tok = f"obj{len(self.dw_tokens)}"
                    self.dw_tokens[id(v)] = tok
                    self.dw_tokens[("keep", id(v))] = v
                data = f"dw@{tok}"
            else:
                d = v.data
                if isinstance(d, np.ndarray):
                    data = self._ndarray(d)
                elif isinstance(d, np.generic):
                    # a numpy scalar is not a 0-d array (another object kind)
                    data = "scalar-" + self._ndarray(np.asarray(d))
                else:
                    data = f"dwdata:{type(d).__name__}"
            parts = [f"data={data}"]
            for name, val in field_items(v):
                if name == "data":
                    continue
                parts.append(f"{name}={self.ref(val)}")
            return self._intern("DataWrapper(" + ", ".join(parts) + ")")
        try:
            import loopy as lp
            if isinstance(v, lp.TranslationUnit):
                return f"loopy-tu:{_loopy_key(v)}"
        except ImportError:
            pass
        if _is_dc(v):
            parts = [f"{name}={self.ref(val)}" for name, val in field_items(v)]
            return self._intern(
                f"{type(v).__module__}.{type(v).__qualname__}("
                + ", ".join(parts) + ")")
        if isinstance(v, tuple) or isinstance(v, list):
            return "(" + ",".join(self.ref(x) for x in v) + ",)"
        if isinstance(v, Mapping):
            items = sorted((self.ref(k), self.ref(x)) for k, x in v.items())
            return "{" + ",".join(f"{k}:{x}" for k, x in items) + "}"
        if isinstance(v, (Set, frozenset, set)):
            return "set{" + ",".join(sorted(self.ref(x) for x in v)) + "}"
        # objects without dataclass fields (stateless reduction operations,
        # plain tag instances): identified by class
        d = getattr(v, "__dict__", None) or {}
        # (private attributes are per-object caches, e.g. the key builder's
        # _pytools_persistent_hash_digest: not structure)
        parts = [f"{k}={self.ref(d[k])}" for k in sorted(d)
                 if not k.startswith("_")]
        return f"obj:{type(v).__module__}.{type(v).__qualname__}(" \
            + ",".join(parts) + ")"

    def text(self, obj) -> str:
        root = self.ref(obj)
        return "\n".join(f"#{h}: {self.table[h]}" for h in sorted(self.table)) \
            + f"\nroot: {root}\n"


def canon_text(obj, dw_mode="identity", dw_tokens=None,
               scalar_types=False) -> str:
    return Canon(dw_mode, dw_tokens, scalar_types).text(obj)


def canon_key(obj, dw_mode="identity", dw_tokens=None,
              scalar_types=False) -> str:
    c = Canon(dw_mode, dw_tokens, scalar_types)
    return c.ref(obj) if False else hashlib.sha256(
        c.text(obj).encode()).hexdigest()[:24]


# {{{ generic iteration

def iter_children(v):
    """direct children values of a compound value (reflectively)"""
    if _is_dc(v):
        for _name, val in field_items(v):
            yield val
    elif isinstance(v, (tuple, list)):
        yield from v
    elif isinstance(v, Mapping):
        for k, x in v.items():
            yield k
            yield x
    elif isinstance(v, (Set, frozenset, set)):
        yield from v


def iter_nodes(root, *, into_non_equality=False, stop_at=None):
    """every dataclass instance reachable from *root* (each object once),
    pre-order"""
    seen: dict = {}
    stack = [root]
    while stack:
        v = stack.pop()
        if v is None or isinstance(v, (bool, int, float, complex, str, bytes,
                                       np.generic, np.ndarray, np.dtype, type,
                                       enum.Enum)):
            continue
        if id(v) in seen:
            continue
        seen[id(v)] = v
        try:
            import loopy as lp
            if isinstance(v, lp.TranslationUnit):
                continue        # opaque: identified by loopy's own key
        except ImportError:
            pass
        if _is_dc(v):
            yield v
        if stop_at is not None and isinstance(v, stop_at):
            continue
        kids = list(iter_children(v))
        stack.extend(reversed(kids))


def pytato_nodes(root):
    from pytato.array import AbstractResultWithNamedArrays, Array
    from pytato.distributed.nodes import DistributedSend
    from pytato.function import FunctionDefinition
    for v in iter_nodes(root):
        if isinstance(v, (Array, AbstractResultWithNamedArrays,
                          FunctionDefinition, DistributedSend)):
            yield v


def free_input_names(root):
    """names of Placeholder / SizeParam nodes reachable from root"""
    from pytato.array import Placeholder, SizeParam
    from pytato.function import FunctionDefinition
    # (the placeholders inside a function definition are its parameters, bound
    # at the call: not inputs of the graph)
    return sorted({v.name for v in iter_nodes(root, stop_at=FunctionDefinition)
                   if isinstance(v, (Placeholder, SizeParam))})


def comm_nodes(root):
    from pytato.distributed.nodes import (
        DistributedRecv, DistributedSend, DistributedSendRefHolder)
    recvs, sends, holders = [], [], []
    for v in iter_nodes(root):
        if isinstance(v, DistributedRecv):
            recvs.append(v)
        elif isinstance(v, DistributedSend):
            sends.append(v)
        elif isinstance(v, DistributedSendRefHolder):
            holders.append(v)
    return recvs, sends, holders

# }}}
