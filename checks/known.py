"""Matchers for known findings (referenced by name from known_findings.json).
A finding is matched by a specific signature: a recipe-level predicate on the
failing input AND the exact failure class/message, so that a different
violation of the same property is still reported."""
from __future__ import annotations

from simkit import mrecipe

def _ancestors(recipe, v):
    seen = set()
    work = [v]
    while work:
        i = work.pop()
        if i in seen:
            continue
        seen.add(i)
        work.extend(recipe["vals"][i]["args"])
    return seen


def holder_inside_other_payload(recipe):
    """a live send is stapled to an intermediate value that feeds the payload
    of another live send, and its own payload depends on a receive"""
    _live, livec = mrecipe.live_sets(recipe)
    for ci in livec:
        c = recipe["comms"][ci]
        if c["staple"][0] != "val":
            continue
        mine = _ancestors(recipe, c["src_val"])
        if not any(recipe["vals"][i]["op"] == "recv" for i in mine):
            continue
        for cj in livec:
            if cj == ci:
                continue
            d = recipe["comms"][cj]
            if d["src"] == c["src"] and \
                    c["staple"][1] in _ancestors(recipe, d["src_val"]):
                return True
        # ... or the value of an output that another send is stapled to: no
    return False


MATCHERS = {
    "holder-inside-other-payload": lambda case, v: (
        holder_inside_other_payload(case["recipe"])
        and v["class"] == "rank-raised:AssertionError"
        and "unable to find suitable part for materialized or output array"
        in v["detail"] and "@stage None" in v["detail"]),
}


def match_known(case, violations, known):
    """split violations into (unknown, matched finding ids).  A violation
    that is a mere consequence of a matched one on another rank (a peer left
    blocked in a collective) is attributed to the same finding."""
    matched = []
    rest = []
    for v in violations:
        hit = None
        for k in known:
            m = MATCHERS.get(k["matcher"])
            if m is not None and m(case, v):
                hit = k["id"]
                break
        if hit:
            matched.append(hit)
        else:
            rest.append(v)
    if matched and all(v["class"] == "blocked-behind-failed-rank" for v in rest):
        rest = []
    return rest, sorted(set(matched))

