"""Engine E2: the interpreter fleet (orchestrator side)."""
from __future__ import annotations

import os
import random
import pickle
import struct
import subprocess
import sys

from . import driver

WORKER = os.path.join(os.path.dirname(os.path.abspath(__file__)),
                      "fleet_worker.py")
_SETARCH = None


class WorkerDied(Exception):
    pass


class WorkerError(Exception):
    """the worker raised while executing an operation (traceback text)"""


class Worker:
    """one child interpreter with its own hash seed, heap prelude and
    allocation history"""

    def __init__(self, hashseed, prelude, label="", optimize=False):
        global _SETARCH
        self.optimize = bool(optimize) or bool(os.environ.get("VERIF_FLEET_OPT"))
        if _SETARCH is None:
            _SETARCH = driver.setarch_prefix()
        self.hashseed = hashseed
        self.prelude = prelude
        self.label = label
        # a canonical environment: the interpreter's address layout must be a
        # function of (hash seed, prelude, commands), not of whatever the
        # orchestrator's environment happens to contain (importing pyopencl, for
        # one, adds PYOPENCL_HOME to os.environ)
        full = driver.child_env(hashseed=hashseed)
        keep = ("PATH", "HOME", "LANG", "LC_ALL", "PYTHONPATH",
                "VERIF_PYTATO_ROOT", "PYTHONHASHSEED", "LOOPY_NO_CACHE",
                "PYTHONDONTWRITEBYTECODE", "PYTHONWARNINGS", "OMP_NUM_THREADS",
                "OPENBLAS_NUM_THREADS", "XDG_CACHE_HOME", "VIRTUAL_ENV",
                "TMPDIR")
        env = {k: full[k] for k in keep if k in full}
        env["PYTOOLS_LOG_NO_THREADS"] = "1"
        if os.environ.get("VERIF_FLEET_ENVDUMP"):
            with open(os.environ["VERIF_FLEET_ENVDUMP"], "a") as f:
                f.write(repr(sorted((k, len(v), v) for k, v in env.items()))
                        + " ARGV " + repr([*_SETARCH, driver.PYTHON, WORKER])
                        + " CWD " + driver.VERIF_DIR + "\n")
        self.proc = subprocess.Popen(
            [*_SETARCH, driver.PYTHON, *(["-O"] if self.optimize else []),
             "-X", "faulthandler", WORKER, str(prelude)],
            stdin=subprocess.PIPE, stdout=subprocess.PIPE,
            stderr=(sys.stderr if os.environ.get("VERIF_FLEET_DEBUG")
                    else subprocess.DEVNULL),
            env=env, cwd=driver.VERIF_DIR)
        kind, info = self._recv()
        assert kind == "ready", kind
        self.info = info
        self.ncalls = 0

    @classmethod
    def from_config(cls, c, label=""):
        return cls(c["hashseed"], c["prelude"], label,
                   optimize=c.get("optimize", False))

    @property
    def config(self):
        c = {"hashseed": self.hashseed, "prelude": self.prelude}
        if self.optimize:
            c["optimize"] = True
        return c

    def _recv(self):
        hdr = self.proc.stdout.read(8)
        if len(hdr) < 8:
            raise WorkerDied(f"worker {self.label} (hashseed {self.hashseed}) "
                             "closed its pipe")
        (n,) = struct.unpack("<Q", hdr)
        buf = b""
        while len(buf) < n:
            chunk = self.proc.stdout.read(n - len(buf))
            if not chunk:
                raise WorkerDied("short read")
            buf += chunk
        return pickle.loads(buf)

    @staticmethod
    def _encode(cmd, kwargs):
        """The bytes of a command must be a function of its VALUE only: a
        pickle of the kwargs would also encode which sub-objects happen to be
        shared (a history straight from the generator and the same history
        read back from a replay file pickle to different lengths), and message
        sizes decide object addresses in the interpreter that receives them.
        So: JSON text for everything JSON-able, raw bytes separately."""
        import json
        raw = {k: bytes(v) for k, v in kwargs.items()
               if isinstance(v, (bytes, bytearray))}
        rest = {k: v for k, v in kwargs.items() if k not in raw}
        text = json.dumps(rest, sort_keys=True)
        return pickle.dumps((cmd, text, sorted(raw.items())),
                            protocol=pickle.HIGHEST_PROTOCOL)

    def call(self, cmd, **kwargs):
        blob = self._encode(cmd, kwargs)
        try:
            self.proc.stdin.write(struct.pack("<Q", len(blob)) + blob)
            self.proc.stdin.flush()
        except BrokenPipeError:
            raise WorkerDied("broken pipe") from None
        self.ncalls += 1
        kind, res = self._recv()
        if kind == "exc":
            raise WorkerError(res)
        return res

    # raw protocol access (process actors: a rank running in this interpreter
    # talks to the orchestrator in the middle of a command)
    def send_cmd(self, cmd, **kwargs):
        blob = self._encode(cmd, kwargs)
        try:
            self.proc.stdin.write(struct.pack("<Q", len(blob)) + blob)
            self.proc.stdin.flush()
        except BrokenPipeError:
            raise WorkerDied("broken pipe") from None
        self.ncalls += 1

    def write_msg(self, obj):
        blob = pickle.dumps(obj, protocol=pickle.HIGHEST_PROTOCOL)
        try:
            self.proc.stdin.write(struct.pack("<Q", len(blob)) + blob)
            self.proc.stdin.flush()
        except BrokenPipeError:
            raise WorkerDied("broken pipe") from None

    def read_msg(self):
        return self._recv()

    def kill(self):
        """crash: the interpreter and everything in it is gone"""
        try:
            self.proc.kill()
        except Exception:  # noqa: BLE001
            pass
        try:
            self.proc.wait(timeout=10)
        except Exception:  # noqa: BLE001
            pass

    def close(self):
        try:
            self.call("quit")
        except Exception:  # noqa: BLE001
            pass
        self.kill()


def draw_configs(rng, k, optimize_p=0.2, optimize_all=None):
    """k interpreter configurations: about half of the hash seeds come from the
    edge values 0, 1, 2**31-1, 2**32-1, the others are drawn afresh for every
    fleet (a fixed seed set never separates, say, {'o1', 'o2'}: seeds 0, 1 and
    2 all iterate that set the same way -- seeded change C17-c17g); some
    interpreters run with -O (asserts and __debug__ blocks compiled away:
    pytato's collision checks and part of its diagnostics)"""
    edge = [0, 1, 4294967295, 2147483647]
    rng.shuffle(edge)
    seeds = edge[:max(1, k // 2)]
    while len(seeds) < k:
        s = rng.randrange(2, 2 ** 32)
        if s not in seeds:
            seeds.append(s)
    rng.shuffle(seeds)
    out = [{"hashseed": s, "prelude": rng.randrange(1, 10 ** 6)}
           for s in seeds[:k]]
    # (drawn afterwards, from a derived stream: the seeds and preludes of a
    # given rng do not depend on optimize_p)
    orng = random.Random(f"optimize:{out}")
    if optimize_all is not None:
        # the interpreters are the ranks of ONE job: -O on all or on none (a
        # mixed job does not even enter the same collectives: pytato's closing
        # barrier in find_distributed_partition is under `if __debug__:`)
        if optimize_all:
            for c in out:
                c["optimize"] = True
        return out
    for c in out:
        if orng.random() < optimize_p:
            c["optimize"] = True
    return out
