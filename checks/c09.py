"""C09 -- every distributed partition is well-formed and all ranks agree on it.
Engine E1 (SimMPI); the run stops after number_distributed_tags.  The
invariants are evaluated by the reflective walker (simkit/partcheck.py), not by
verify_distributed_partition, which is code under test (its verdict is
invariant 6)."""
from __future__ import annotations

import time

from checks.known import match_known
from simkit import distrun, driver, e1

PROP = "C09"
LEVEL = "exploration"

TIERS = {
    "quick": {"streams": 64, "runs": 700, "codegen_every": 0, "budget_s": None},
    "thorough": {"streams": 4000, "runs": 500, "codegen_every": 0,
                 "budget_s": 15 * 60},
}

RULE = ("one evaluation = one simulated multi-rank run of "
        "find_distributed_partition + verify_distributed_partition + "
        "number_distributed_tags under a seeded schedule (rank stalls, PCT "
        "priorities, seeded fold order and bracketing of the commutative "
        "allreduce); distinct = distinct (recipe digest, event-log digest) "
        "pairs; non-trivial = at least 2 ranks and at least 1 live message")

ASSUMPTIONS = [
    "SimMPI implements the collective semantics of mpi4py's pickle-based "
    "lower-case methods (every rank gets an independent unpickled copy; an "
    "allreduce with a commute=True op may be folded in any order/bracketing, "
    "all ranks receive the same result object)",
    "the reflective walker (dataclasses.fields) sees every field of a "
    "DistributedGraphPart / DistributedGraphPartition that matters",
    "invariant 5 (agreement on rounds) is checked as existence of one global "
    "integer labelling of messages consistent with every rank's part chain "
    "(weaker than the implementation's exact batch numbers on purpose)",
]

EXPECTED_PROBES = ("forwarded_recv", "recv_only_via_holder", "output_is_input",
                   "output_is_recv", "dup_output_array", "multi_msg_same_pair",
                   "same_array_two_peers", "stored_on_recv", "shared_sym_tag",
                   "three_or_more_parts", "reduce_shuffled", "stalls")


def evaluate(case, res):
    return distrun.oracle_c09(case["recipe"], res)


def run_stream(task):
    seed, stream, nruns, _codegen_every = task
    known = driver.load_known_findings(PROP)
    acc = e1.Accum()
    t0 = time.monotonic()
    for run in range(nruns):
        case, rng = e1.make_case(seed, PROP, stream, run, codegen_every=0)
        case["iterations"] = 1
        case["stop_after"] = "tags"
        res, trace = e1.run_with(case, None, rng)
        acc.note_run(case, res)
        acc.sample(case, res, trace)
        v = evaluate(case, res)
        if v:
            rest, hits = match_known(case, v, known)
            for h in hits:
                acc.known.append((h, stream, run))
            if rest:
                acc.violations.append({
                    "stream": stream, "run": run, "case": case,
                    "decisions": trace, "classes": e1.classes_of(rest),
                    "details": rest[:8]})
                if len(acc.violations) >= 3:
                    break
    acc.wall = time.monotonic() - t0
    return acc


def replay(path):
    import json
    with open(path) as f:
        doc = json.load(f)
    case = e1.case_from_doc(doc)
    case["stop_after"] = "tags"
    res, _trace = e1.run_with(case, doc["schedule"])
    v = evaluate(case, res)
    rest, _hits = match_known(case, v, driver.load_known_findings(PROP))
    return doc, e1.classes_of(rest), rest
